#!/bin/sh
# Build the overlay venv used by every check (offline; idempotent).
set -e
cd "$(dirname "$0")"
V=/verif/.venv
if [ -x "$V/bin/python" ] && "$V/bin/python" -c "import z3, crosshair, numpy, astropy, cvc5" 2>/dev/null; then
  exit 0
fi
rm -rf "$V"
/venv/bin/python -m venv "$V"
SP=$("$V/bin/python" -c "import sysconfig; print(sysconfig.get_paths()['purelib'])")
printf '/venv/lib/python3.12/site-packages\n/repo\n' > "$SP/_verif_overlay.pth"
PIP_NO_INDEX=1 "$V/bin/pip" install -q --no-index --find-links /opt/veriftools/wheels z3-solver cvc5 crosshair-tool >/dev/null
"$V/bin/python" -c "import z3, crosshair, numpy, astropy, cvc5, pulsarbat; print('overlay ok', z3.get_version_string())"
