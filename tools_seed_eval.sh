#!/bin/sh
# tools_seed_eval.sh <property id> <k> [tier] : confirm a sub-agent's seeded change and run the check against it.
# 1. demo passes on the clean worktree, fails with the patch; 2. the pinned test suite still passes with the patch;
# 3. apply to /repo, run ./check, undo.  Prints a summary; stores nothing (the caller files the result under seeded/).
ID=$1; K=$2; TIER=${3:-quick}
WT=${WT_BASE:-/tmp/wt}/$ID; SD=${SD_BASE:-/tmp/seed}/$ID
P=$SD/patch$K.diff; D=$SD/demo$K.py
git -C $WT checkout -q -- . || exit 9
PYTHONPATH=$WT /venv/bin/python -W ignore $D >$SD/demo$K.clean.log 2>&1; echo "demo clean exit=$?"
git -C $WT apply $P || { echo "patch does not apply"; exit 9; }
PYTHONPATH=$WT /venv/bin/python -W ignore $D >$SD/demo$K.patched.log 2>&1; echo "demo patched exit=$?"
if [ -z "$SKIP_TESTS" ]; then
  (cd $WT && PYTHONPATH=$WT /venv/bin/python -m pytest -q -p no:cacheprovider --timeout=900 -x --deselect tests/test_phase_predictor.py 2>&1 | tail -1)
  (cd $WT && PYTHONPATH=$WT /venv/bin/python -m pytest -q -p no:cacheprovider --timeout=900 tests/test_phase_predictor.py 2>&1 | tail -1)
fi
git -C $WT checkout -q -- .
git -C /repo apply $P || { echo "patch does not apply to /repo"; exit 9; }
cd /verif && timeout 3000 ./check $ID $TIER --no-evidence 2>&1 | grep -E "^VIOLATION|^  unit|^\[$ID\] $TIER|^INCONCL" | cut -c1-220 | head -8
echo "check exit=$?"
git -C /repo checkout -q -- .
git -C /repo status --short
