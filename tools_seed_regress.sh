#!/bin/sh
# tools_seed_regress.sh [tier] [ids...] : apply every filed seeded change to /repo in turn, run its property's check, undo.
# Expected: exit 1 with a VIOLATION line for each (C20-1, Dask-only, is the documented exception).  Development tool, not a check.
TIER=${1:-quick}; shift
IDS=${*:-$(ls /verif/seeded)}
cd /verif
git -C /repo status --short | grep -q . && { echo "/repo not clean"; exit 9; }
for s in $IDS; do
  P=${s%-*}
  git -C /repo apply /verif/seeded/$s/patch.diff || { echo "$s: patch does not apply"; continue; }
  t0=$(date +%s)
  timeout 3000 ./check $P $TIER --no-evidence > /tmp/seedreg.$s.log 2>&1; rc=$?
  t1=$(date +%s)
  git -C /repo checkout -q -- .
  echo "$s rc=$rc $((t1-t0))s $(grep -c '^VIOLATION' /tmp/seedreg.$s.log) violation line(s) $(grep -m1 '^VIOLATION' /tmp/seedreg.$s.log | cut -c1-120)"
  rm -f /tmp/seedreg.$s.log
done
git -C /repo status --short
