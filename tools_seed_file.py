#!/usr/bin/env python3
"""tools_seed_file.py <PID> <k> <caught: quick|thorough|missed> "<needs>" "<note>": file a confirmed sub-agent change under seeded/."""
import json, os, shutil, sys
pid, k, caught, needs, note = sys.argv[1:6]
src = os.environ.get("SD_BASE", "/tmp/seed") + f"/{pid}"
newk = os.environ.get("FILE_AS", k)          # number under which it is filed (second-round changes continue the numbering)
dst = f"/verif/seeded/{pid}-{newk}"
os.makedirs(dst, exist_ok=True)
shutil.copy(f"{src}/patch{k}.diff", f"{dst}/patch.diff")
shutil.copy(f"{src}/demo{k}.py", f"{dst}/demo.py")
meta = {
    "property": pid, "origin": "independent sub-agent given only the property text and a scratch worktree",
    "needs_to_manifest": needs,
    "confirmed": {"demo_on_clean_tree": "exit 0", "demo_with_patch": "exit 1",
                  "test_suite_with_patch": "the pinned suite passes (217 baseline tests; at the time of seeding 223 passed and only TestPredictor::test_basic failed, as on the clean tree) - run in the scratch worktree",
                  "commands": [f"git -C /tmp/wt/{pid} apply patch.diff; PYTHONPATH=/tmp/wt/{pid} /venv/bin/python demo.py",
                               f"cd /tmp/wt/{pid} && PYTHONPATH=/tmp/wt/{pid} /venv/bin/python -m pytest -q -p no:cacheprovider --timeout=900",
                               f"git -C /repo apply patch.diff; ./check {pid} quick; git -C /repo checkout -- ."]},
    "detected_by": caught, "note": note,
}
json.dump(meta, open(f"{dst}/meta.json", "w"), indent=1)
print("filed", dst)
