#!/usr/bin/env python3
"""Regenerates /verif/MANIFEST.json from the table below (run after adding or removing a check)."""
import json
import os

HERE = os.path.dirname(os.path.abspath(__file__))
TECH = "solver-based symbolic execution of the real code (pbsym: z3 decides every path's property queries within stated bounds; counterexamples replayed on the unpatched code)"
COMMON_NOTE = (" Exact real arithmetic unless stated; stubs, bounds and functions encoded are listed in the evidence file; "
               "trusted base: z3, CPython, NumPy indexing/broadcasting, astropy unit algebra.")

CHECKS = {
    "C01": ("Bounded symbolic model checking of the real slicing / like / time-attribute code on signals whose length N <= 2^62, "
            "slice bounds (any integers or absent) and metadata are symbolic (T-arrays); one inductive step from an arbitrary valid "
            "signal plus an explicit two-step composition; fast_len against an uninterpreted prev_fast_len with the contract proved in C18; "
            "contains() against the half-open interval at five concrete rates from mHz to GHz (nothing before start_time, an empty signal "
            "contains nothing); cropped integer and fractional time shifts (the C03 units) for their length / start_time clauses.",
            "Exact real time (astropy Time two-double rounding outside the claim); step <= 4 quick / 8 thorough; the other FFT-based crops "
            "are checked in C05/C06/C12."),
    "C03": ("Bounded symbolic model checking of the real time_shift: for each listed (N, sample shape, shift shape) every feasible path "
            "is explored and z3 shows that no sample values and no shift values within the bound violate the shift / zero-fill / crop / "
            "metadata spec (integer shifts: exact sample moves; real shifts: per-bin phase factor as uninterpreted cos/sin with argument equality).",
            "N in {1,2,3,4} quick, +{6,8} thorough for integer shifts, N in {1,2,4} for real shifts; bounded |s|; float32/complex64 rounding and "
            "FFT round-off outside the claim; shifts within numpy.allclose tolerance of 0 (treated as no shift by the code) outside."),
    "C04": ("Bounded symbolic model checking of the real freq_shift on Baseband/DualPolarization signals: whole-bin shifts move the "
            "fftshifted spectrum exactly with zero fill, fractional shifts multiply by exp(2 pi i phi n) and zero exactly the wrapped bins, "
            "for every element under every broadcastable shift shape; metadata unchanged.",
            "N in {1,2,3,4} quick, +{6,8} thorough; concrete 4 kHz sample rate (keeps shift*dt linear); bounded shifts; complex64 cast and FFT "
            "round-off outside the claim."),
    "C10": ("Bounded symbolic model checking of the real concatenate together with the real slicing code: split at symbolic cut points "
            "(N <= 2^40 symbolic, 2..3 pieces quick / 4 thorough, every pattern of missing start times, both groupings) and re-joined equals the "
            "original; frequency splits at every channel cut for 2..4 (6) channels and all alignments; every listed perturbation (start time by "
            ">= 1 sample, swapped pieces, sample rate / chan_bw beyond rtol, type mix, labels, gap/overlap/order/duplicated or swapped inner piece "
            "in frequency, start times that disagree on a frequency join) is refused on every path; pieces without a start time on frequency joins.",
            "Exact real time with symbolic isclose tolerance eps < dt/4; concrete sample rates 3 Hz / 2.5 kHz / 400 MHz; float rounding of "
            "labels (bands touching 0 Hz, extreme center_freq/chan_bw ratios) outside the claim."),
    "C12": ("Bounded symbolic model checking of the real snippet: whole-sample requests on signals of symbolic length (t, n any integers; "
            "t as count, duration or absolute Time) equal z[t:t+n] with the exact start time or raise ValueError exactly when out of range; "
            "fractional requests on N in {2,4} (thorough {1,2,3,4}) equal the DFT-interpolated samples with length n and start t0 + t*dt.",
            "Exact real arithmetic; duration/Time forms at two concrete rates; the 1e-8 no-shift tolerance band of time_shift outside."),
    "C13": ("Symbolic execution of the real to_linear/to_circular/to_stokes/to_intensity/Stokes component access on signals whose complex "
            "samples are arbitrary reals; every documented identity is a polynomial identity decided by z3 (normal form with sqrt2^2 = 2, solver "
            "for inequalities).", "Shapes up to (2,2,2) quick, 4-d thorough; complex widths/rounding outside the claim."),
    "C18": ("Symbolic execution of the real next_fast_len/prev_fast_len bodies with symbolic N: every path is an interval of N with a constant "
            "result; z3 shows the result is the nearest 7-smooth number for all N of the path, against an independently generated table. "
            "Exhaustive for 0 <= N < 2^17 quick, < 2^20 thorough plus symbolic windows around prime powers and every 97th 7-smooth number up to "
            "2^62; fast_len(z) keeps exactly the first prev_fast_len(len(z)) samples (symbolic length, timestamps untouched).",
            "lru_cache bypassed via __wrapped__; N >= 2^20 outside the sampled windows is outside the claim."),
    "C19": ("Symbolic execution of the real real_to_complex on arrays of symbolic real samples with the exact DFT: output equals the analytic "
            "signal (standard one-sided spectrum weights) mixed by -fs/4 and decimated, (-1)^m Re(out[m]) = in[2m], shape/dtype/axis rules, "
            "complex input refused.", "N in {0..4} quick, +{6,8,12} thorough; ranks 1..3; float32 accuracy outside the claim."),
}

CHECKS.update({
    "C02": ("Bounded symbolic model checking of the real channel-label code: labels, band edges and alignment normalisation against the band "
            "model for nchan 1..6 (10 thorough), all alignments and unit combinations with symbolic center_freq/chan_bw; frequency slices with "
            "symbolic raw bounds (any integers or absent; only the normalised pair is forked), nested slices and slices combined with a time "
            "slice return exactly the selected labels and samples; empty ranges raise; Stokes component access keeps labels, times and metadata.",
            "Exact real arithmetic (float rounding of labels at extreme center_freq/chan_bw outside the claim); signal length symbolic (T-arrays)."),
    "C05": ("Bounded symbolic model checking of the real coherent dedispersion in three parts: (a) the chirp's exponent (recorded at np.exp) "
            "equals -2*pi*K*DM*f_k*(1/f_ref-1/f_k)^2 on every bin within 1e-11 relative (nonlinear real arithmetic, DM eliminated by "
            "linearity), for N in {1,2,3,4} and several unit combinations; (b) every channel's chirp is that function called with "
            "(K*DM, N, dt, channel label, reference); (c) for every unit-modulus chirp the result is IDFT(DFT(z)*chirp) cropped by the "
            "ceilings of free band-edge delays of either sign/order, with start_time advanced by the front crop; DM/-DM exponents cancel; "
            "the delay of any in-band frequency lies between the band-edge delays. DM in pc/cm^3, pc/m^3, kpc/cm^3. Each transfer-function "
            "witness is also replayed on the real code with an infinite reference frequency (concrete variant).",
            "Concrete sample spacing per unit; N in {2,4} (+{3,8} thorough) for the filtering units; complex64 accuracy of the chirp over many "
            "decades of DM is outside the claim (exact arithmetic); DM.sample_delay stubbed in (c), its law is C06."),
    "C06": ("Symbolic execution of the real time_delay/sample_delay on symbolic DM, frequencies and sample rate in mixed units: law, antisymmetry, "
            "additivity and sample_delay = delay*rate hold within 1e-12 relative (nonlinear real arithmetic); incoherent_dedispersion on signals "
            "of symbolic length with free monotone channel delays: every output sample comes from the input sample round(delay_i) later "
            "(round-half-even), sources in range, length, start_time, type/labels/trailing dims, and the delays are requested at the channel "
            "labels / reference frequency / sample rate. DM in pc/cm^3, pc/m^3, kpc/cm^3; each delay-law witness is also replayed with an "
            "infinite second frequency (concrete variant).", "nchan 1..3 (4 thorough); float rounding of delays near .5 outside the claim; "
            "channel delays assumed monotone (proved for the real time_delay in the lemma units for bands above 0 Hz)."),
    "C14": ("Symbolic execution of 26 public operations on signals backed by writable NumPy object buffers (contiguous, strided view of a larger "
            "buffer, swapped axes): the complete input buffer, strides, metadata and every array/Quantity argument are snapshotted before and "
            "compared after each call, on every path including those that raise; a replaced element must be provably equal for all sample values.",
            "One call from an arbitrary input (sequences by induction); N = 2..4; Dask helpers on Dask data and readers are outside."),
    "C20": ("Dispatch: with the fourteen scipy.fft functions replaced by distinct uninterpreted functions, pulsarbat.fft.<name> returns exactly "
            "U_name applied to the unchanged arguments for six argument patterns with symbolic n/axis, unknown names raise AttributeError. "
            "STFT/ISTFT on symbolic samples: every sub-channel value is the stated DFT bin of its segment, its label is the true frequency, "
            "sample_rate/nperseg, start time unchanged, and ISTFT(STFT(z)) returns the truncated input with the original metadata and labels.",
            "That scipy.fft.<name> is the reference DFT is the trusted base; Dask branch is C09; nperseg in {1,2,3,4}, nchan in {1,2,3}."),
})

CHECKS.update({
    "C07": ("Symbolic execution of the real Phase constructor, from_angles, day_frac and every arithmetic branch of __array_ufunc__ on EXACT-REAL "
            "shadow values held in an object-field Phase: for every operand kind (Phase, scalar, 0-d/1-d arrays, dimensionless Quantity, "
            "Angle/Quantity in cycles; both orders; real and imaginary phases and factors) the result is a Phase, its count integer-valued, "
            "|frac| <= 1/2, its value the exact expression on the operands (i*i = -1 bookkeeping), floor-division/remainder/divmod exact, and "
            "sin/cos receive the fraction only; // % divmod also with a Phase divisor and with an angle divided by a Phase. Every witness, and six "
            "precision-corner inputs per unit, are also run on the real float code, whose outcome must agree with the exact result of the same "
            "float operands within 2^-52 cycles (remainders: dividend = k*divisor + remainder to 2^-52) - concrete validation, not a proof.",
            "EXACT REAL semantics: decides dispatch/type/sign/normalisation, NOT the 2^-52 accuracy of the two-double chains at float64 (the "
            "solvers available do not finish day_frac even at a 10-bit float format); precision loss is visible only through the result type "
            "and through the concrete replays."),
    "C16": ("Symbolic execution of the real constructors on a shape-only array whose dimensions are symbolic integers (ndim 0..5, 12 dtypes, six "
            "classes): construction succeeds exactly when the class contract holds, else ValueError; every metadata argument (valid/invalid "
            "units with symbolic magnitudes, non-scalars, invalid alignment / polarisation / meta / start_time values) by construction and by "
            "assignment; the class invariant (incl. chan_bw == sample_rate for baseband) on every signal returned by the 26 operations of C14; "
            "like() reproduces every attribute.", "Pickling and the Dask container helpers are outside (solver terms cannot be pickled)."),
    "C17": ("Symbolic execution of Signal.__array_ufunc__/__array__ on signals with symbolic samples and distinct symbolic metadata: for an "
            "enumerated list of ufuncs (23 incl. comparisons and a two-output ufunc) and every operand arrangement the values equal the ufunc on "
            "the data, type and metadata are those of the first signal operand, out=/in-place forms return the given object with its own metadata, "
            "reduce/accumulate/outer/at/matmul raise TypeError, array conversion (with dtype) yields the data.",
            "The set of ufuncs is an enumerated list (only ufuncs with object loops can run on shadow values); the solver contributes the "
            "for-all over sample values and metadata."),
})

CHECKS.update({
    "C08": ("Partial: symbolic execution of the real intervals / _get_index_and_dt / __call__ / f0 / phasepol methods on a stand-in table. "
            "Intervals: 1..3 entries with symbolic mid times and span - result covers every span, is sorted, disjoint, > 1 ms apart, ends at "
            "span ends and contains no time farther than 1 ms from every span. Evaluation: three concrete polyco texts parsed by the real "
            "from_polyco (incl. gaps, ncoeff not a multiple of 3, D exponents), symbolic time: refusals exactly outside the spans, the entry "
            "used contains the time, phase = tempo formula (exact decimals of the text) within 1e-8 cycles over the whole span (difference "
            "polynomial expanded exactly, one univariate inequality per side), derivatives, recentred polynomial. Parsing: the real "
            "from_polyco runs on a token stream with concrete layout (1-2 entries, NCOEFF 2..4) and symbolic TMID, RPHASE (integer and six "
            "decimals), F0 and coefficients; __call__/f0 of the parsed table at a symbolic time equal the tempo formula on those symbolic "
            "numbers (difference in polynomial normal form, within 1e-8 cycles / 1e-12 of the derivative scale), refusals exactly outside spans.",
            "Texts with symbolic numbers are limited to the listed layouts (no blank lines, NCOEFF >= 2, at most two entries); time_at, "
            "float Horner round-off, Time differences and array-valued times are outside the claim."),
    "C11": ("Partial: symbolic execution of the real BaseReader/BasebandReader/GUPPIRawReader/DADAStokesReader code over a stub stream of "
            "symbolic length: two successive reads with symbolic (offset, n) raise exactly out of range, return n samples with start_time = "
            "time_at(offset), every element is the stream sample the format prescribes (axis order, LSB conjugation scalar/mask, Stokes "
            "channel flip, Hilbert block 2*offset..2*offset+2n), reader attributes unchanged by reads (statelessness by induction), "
            "offset_at(time_at(k)) = k through absolute and relative times, header-derived metadata.",
            "The baseband stream is a stub (file decoding by baseband is trusted); concurrency and Dask reads are outside; concrete sample rates."),
    "C15": ("Comparisons: the real comparison branch runs on IEEE float64 shadow values (z3 FloatingPoint (11,53), RNE): for ALL pairs of "
            "normalised phases each of < <= > >= == != equals the comparison of the exact two-part values (decided by z3's qffp tactic in "
            "1-2 min per operator). argmin/argmax/min/max: decided at the (5,11) format for length-2 arrays; counterexamples are lifted to "
            "float64 and replayed on the real code (open known findings F14: near-ties below double resolution are mis-ordered). Comparison "
            "dispatch in exact reals: Phase against Phase/angle/Quantity through operators and directly called ufuncs in both operand orders. "
            "_parse_string: CrossHair contract over a symbolic str of the decimal grammar (length <= 5 quick / 7 thorough) plus exact "
            "replays of exemplar spellings through from_string. Rendering: the real to_string/do_format/__format__ string surgery runs "
            "on symbolic decimal strings whose digits are solver variables constrained by the renderer contract (correct rounding of the "
            "exact value for '.Nf', half-ulp round-tripping decimal for str()); for every count |i| <= 2^52 and fraction in [-1/2,1/2], "
            "precision 0..15 and None, imaginary/alwayssign/latex variants: the result is a well-formed decimal with the digits asked for "
            "within half a unit of the last digit (1e-16 without precision) of the exact value, sign and suffix right.",
            "Rendering is decided in exact reals: the float rounding of frac+0.25 / frac+1 and precisions above 15 are outside. "
            "NOT decided: argsort/sort/ptp (they run the "
            "two-double day_frac chain, which z3 does not decide even at an 8-bit significand); reductions only at reduced width; "
            "CrossHair 'not confirmed' = no counterexample within its budget, not a proof."),
})

NOT_APPLICABLE = {
    "C09": "Dask equivalence quantifies over chunk layouts, schedulers and laziness; the deciding code is Dask's graph construction and "
           "schedulers, which cannot run on solver terms (object-dtype dask arrays refuse np.exp; threads/processes cannot carry z3 terms) - "
           "nothing of it can be put to the solver without replacing Dask by a model of Dask.",
}
PENDING = {} if True else {
    "C02": "check not yet built in this round", "C05": "check not yet built in this round", "C06": "check not yet built in this round",
    "C07": "check not yet built in this round", "C08": "check not yet built in this round", "C11": "check not yet built in this round",
    "C14": "check not yet built in this round", "C15": "check not yet built in this round", "C16": "check not yet built in this round",
    "C17": "check not yet built in this round", "C20": "check not yet built in this round",
}


def main():
    checks = []
    for pid in sorted(CHECKS):
        text, note = CHECKS[pid]
        checks.append({
            "property_id": pid, "quick_cmd": f"./check {pid} quick", "thorough_cmd": f"./check {pid} thorough",
            "evidence_file": f"/verif/evidence/{pid}.json", "replay_cmd_template": f"./check {pid} --replay {{path}}",
            "engine": "pbsym",
            "level_claimed": {"category": "model_checking", "text": text, "design_ref": f"DESIGN.md section 4, {pid}"},
            "level_note": note + COMMON_NOTE, "technique": TECH})
    na = [{"property_id": k, "reason": v} for k, v in sorted({**NOT_APPLICABLE, **{k: v for k, v in PENDING.items() if k not in CHECKS}}.items())]
    m = {
        "version": 1, "setup_cmd": "./setup.sh",
        "hooks": {"guard": "PULSARBAT_VERIF",
                  "enable": "no source hooks: all interposition is run-time name injection into pulsarbat's module namespaces by "
                            "/verif/pbsym/stubs.py (PULSARBAT_VERIF is not read by /repo)",
                  "baseline_off_cmd": "cd /repo && /venv/bin/python -m pytest -ra -q -p no:cacheprovider --timeout=900 --continue-on-collection-errors",
                  "source_commits": [], "add_only": True},
        "engines": [{"name": "pbsym", "path": "/verif/pbsym", "serves_properties": sorted(CHECKS),
                     "kind_free_text": "symbolic execution of the real pulsarbat functions on z3-backed shadow values (DFS path exploration "
                                       "by re-execution; every path's property queries decided by z3; counterexamples replayed on the unpatched code)"}],
        "checks": checks, "not_applicable": na,
        "notes": "fix: commits in /repo (genuine defects found by these checks) are listed in /verif/known_findings.json",
    }
    with open(os.path.join(HERE, "MANIFEST.json"), "w") as f:
        json.dump(m, f, indent=1)
    print("MANIFEST.json:", len(checks), "checks,", len(na), "not applicable")


if __name__ == "__main__":
    main()
