"""Dual-mode input factories and output views.

A unit's ``build``/``spec`` are written once against a mode object ``S``:
* SymMode  - inputs are shadow values registered with the path context; spec formulas go to the solver.
* ConcMode - inputs are real floats / numpy arrays / astropy objects made from a solver model
             (replay of a counterexample, or witness validation of the encoding); spec formulas are
             closed terms evaluated exactly.
"""
from fractions import Fraction

import astropy.units as u
import numpy as np
import z3
from astropy.time import Time

from . import core as K
from .core import SBool, SComplex, SInt, SNum, SReal, Unsupported, rv, _toreal, evalz
from .symnd import SymND, plain
from .tarr import SymTime, TArr, oq, uf_cols, zint

EPOCH = Time("2021-03-04T05:06:07", format="isot", scale="utc", precision=9)


class PreconditionFailed(Exception):
    pass


class Raised:
    """Outcome of a call that raised."""

    def __init__(self, exc):
        self.exc = exc
        self.cls = type(exc)
        import traceback
        self.tb = "".join(traceback.format_exception(type(exc), exc, exc.__traceback__)[-4:])

    def __repr__(self):
        return f"Raised({self.cls.__name__}: {self.exc})"


def call_catching(fn, *a, **k):
    try:
        return fn(*a, **k)
    except Exception as e:      # BaseException (PathAbort/Unsupported) must propagate
        return Raised(e)


def fr_exact(x):
    """exact rational value of a python/numpy real scalar"""
    if isinstance(x, (int, np.integer)):
        return Fraction(int(x))
    return Fraction(float(x))


def term_of_number(x):
    if isinstance(x, (SInt, SReal)):
        return _toreal(x.e)
    if isinstance(x, z3.ExprRef):
        return _toreal(x)
    if isinstance(x, np.ndarray) and x.ndim == 0:
        return term_of_number(x[()])
    if isinstance(x, (bool, np.bool_)):
        return K.realval(int(x))
    if isinstance(x, (int, np.integer)):
        return K.realval(int(x))
    if isinstance(x, (float, np.floating)):
        return K.realval(K.frac_of_float(x))        # same lifting as the shadow arithmetic applies to float literals
    if isinstance(x, Fraction):
        return K.realval(x)
    raise Unsupported(f"term_of_number({type(x)})")


def cterm(x):
    """(re, im) z3 terms of a complex or real element"""
    if isinstance(x, SComplex):
        return x.re, x.im
    if isinstance(x, (complex, np.complexfloating)):
        return K.realval(K.frac_of_float(x.real)), K.realval(K.frac_of_float(x.imag))
    return term_of_number(x), z3.RealVal(0)


# ---------------------------------------------------------------------------
class SymMode:
    symbolic = True
    variant = None

    def __init__(self, ctx):
        self.ctx = ctx

    def real(self, name):
        return self.ctx.real(name)

    def int(self, name, lo=None, hi=None):
        return self.ctx.int(name, lo, hi)

    def assume(self, c):
        self.ctx.assume(c)

    def fp(self, name):
        return self.ctx.fp(name)

    def carray(self, name, shape, dtype=np.complex128):
        a = np.empty(shape, dtype=object)
        for ix in np.ndindex(*shape):
            s = "_".join(map(str, ix))
            a[ix] = SComplex(self.ctx.real(f"{name}r_{s}").e, self.ctx.real(f"{name}i_{s}").e)
        return SymND(a, dtype)

    def rarray(self, name, shape, dtype=np.float64):
        a = np.empty(shape, dtype=object)
        for ix in np.ndindex(*shape):
            a[ix] = self.ctx.real(f"{name}_" + "_".join(map(str, ix)))
        return SymND(a, dtype)

    def iarray(self, name, shape, lo=None, hi=None):
        a = np.empty(shape, dtype=object)
        for ix in np.ndindex(*shape):
            a[ix] = self.ctx.int(f"{name}_" + "_".join(map(str, ix)), lo, hi)
        return a

    def tarray(self, name, length, sample_shape, dtype):
        kind = "complex" if np.dtype(dtype).kind == "c" else "real"
        return TArr(length, uf_cols(self.ctx, name, sample_shape, kind), dtype)

    def quantity(self, val, unit):
        if isinstance(val, (SNum, SComplex)):
            return oq(val, unit)
        if isinstance(val, SymND) or (isinstance(val, np.ndarray) and val.dtype == object):
            return u.Quantity(plain(val), unit, dtype=object)
        return u.Quantity(val, unit)

    def time(self, sec):
        """Time at `sec` seconds after the (arbitrary) epoch; None passes through."""
        if sec is None:
            return None
        return SymTime(sec)

    def time_eps(self, eps):
        SymTime.EPS = eps.e if isinstance(eps, SNum) else eps

    def concretize(self, term):
        """value of an Int term that the path condition already determines (forks if it does not)"""
        return self.ctx.choose_int(term)

    def decide(self, cond):
        """truth of a condition under the path condition (forks the path if both are feasible)"""
        return self.ctx.branch(cond.e if isinstance(cond, SBool) else cond)

    def zero_sign(self, x):
        return x


class ConcMode:
    symbolic = False

    def __init__(self, values, small_time=True, variant=None):
        self.values = values
        self.variant = variant     # "negzero": zero-valued shifts are given as -0.0 (a float-only input the solver cannot propose)
        self.env = {}            # exact values actually used (floats -> Fractions), for evalz
        self.ufs = {}
        self.tarrays = {}

    def real(self, name):
        v = float(Fraction(self.values[name]))
        self.env[name] = Fraction(v)
        return v

    def int(self, name, lo=None, hi=None):
        v = int(self.values[name])
        self.env[name] = v
        return v

    def fp(self, name):
        v = float(self.values[name])
        self.env[name] = v
        return v

    def assume(self, c):
        if isinstance(c, SBool):
            c = c.e
        if isinstance(c, z3.ExprRef):
            c = evalz(c, self.env, self.ufs)
        if not bool(c):
            raise PreconditionFailed("assumption false on concrete inputs")

    def carray(self, name, shape, dtype=np.complex128):
        a = np.empty(shape, dtype=np.complex128)
        for ix in np.ndindex(*shape):
            s = "_".join(map(str, ix))
            re, im = self.real(f"{name}r_{s}"), self.real(f"{name}i_{s}")
            a[ix] = complex(re, im)
        if np.dtype(dtype) != np.complex128:
            a = a.astype(dtype)
            for ix in np.ndindex(*shape):     # record the values after the cast
                s = "_".join(map(str, ix))
                self.env[f"{name}r_{s}"] = Fraction(float(a[ix].real))
                self.env[f"{name}i_{s}"] = Fraction(float(a[ix].imag))
        return a

    def rarray(self, name, shape, dtype=np.float64):
        a = np.empty(shape, dtype=np.float64)
        for ix in np.ndindex(*shape):
            a[ix] = self.real(f"{name}_" + "_".join(map(str, ix)))
        if np.dtype(dtype) != np.float64:
            a = a.astype(dtype)
            for ix in np.ndindex(*shape):
                self.env[f"{name}_" + "_".join(map(str, ix))] = Fraction(float(a[ix]))
        return a

    def iarray(self, name, shape, lo=None, hi=None):
        a = np.empty(shape, dtype=np.int64)
        for ix in np.ndindex(*shape):
            a[ix] = self.int(f"{name}_" + "_".join(map(str, ix)))
        return a

    def tarray(self, name, length, sample_shape, dtype):
        """Concrete stand-in for arbitrary sample values: every element distinct."""
        n = int(length)
        if n > 100000:
            raise PreconditionFailed(f"length {n} too large to replay concretely")
        dt = np.dtype(dtype)
        size = int(np.prod(sample_shape)) if sample_shape else 1
        base = np.arange(n * size, dtype=np.float64).reshape((n,) + tuple(sample_shape))
        if dt.kind == "c":
            a = (base + 1 + 1j * (base + 0.5)).astype(dt)
        else:
            a = (base + 1).astype(dt)
        for ix in np.ndindex(*sample_shape):
            tag = "_".join(map(str, ix)) or "s"
            col = a[(slice(None),) + ix]
            if dt.kind == "c":
                self.ufs[f"{name}r_{tag}"] = (lambda c: (lambda t: Fraction(float(c[int(t)].real)) if 0 <= int(t) < len(c) else Fraction(-7)))(col)
                self.ufs[f"{name}i_{tag}"] = (lambda c: (lambda t: Fraction(float(c[int(t)].imag)) if 0 <= int(t) < len(c) else Fraction(-7)))(col)
            else:
                self.ufs[f"{name}_{tag}"] = (lambda c: (lambda t: Fraction(float(c[int(t)])) if 0 <= int(t) < len(c) else Fraction(-7)))(col)
        self.tarrays[name] = a
        return a

    def quantity(self, val, unit):
        return u.Quantity(val, unit)

    def time(self, sec):
        if sec is None:
            return None
        return EPOCH + float(sec) * u.s

    def time_eps(self, eps):
        pass

    def concretize(self, term):
        return int(evalz(term, self.env, self.ufs))

    def zero_sign(self, x):
        """x, or -0.0 where x == 0 in the 'negzero' variant"""
        import numpy as _np
        if self.variant != "negzero":
            return x
        if isinstance(x, _np.ndarray):
            x = x.astype(float)
            x[x == 0] = -0.0
            return x
        return -0.0 if x == 0 else x

    def decide(self, cond):
        return bool(evalz(cond.e if isinstance(cond, SBool) else cond, self.env, self.ufs))


# ---------------------------------------------------------------------------
def time_term(t):
    """z3 real term: seconds since EPOCH (exact for real Time via the two-double jd)."""
    if t is None:
        return None
    if isinstance(t, SymTime):
        return t.sec.e
    d = (Fraction(float(t.jd1)) - Fraction(float(EPOCH.jd1))) + (Fraction(float(t.jd2)) - Fraction(float(EPOCH.jd2)))
    return K.realval(d * 86400)


def qterm(q, unit):
    """z3 real term of a scalar Quantity's value in `unit` (exact unit factor for concrete values)."""
    if q.dtype == object:
        v = q.to_value(unit)
        return term_of_number(v[()] if isinstance(v, np.ndarray) else v)
    scale = Fraction(repr(float((1 * q.unit).to_value(unit))))
    return K.realval(K.frac_of_float(q.value) * scale)


def qterms(q, unit):
    """list of z3 real terms of a 1-d Quantity"""
    if q.dtype == object:
        v = np.asarray(plain(q.to_value(unit)), dtype=object)
        return [term_of_number(e) for e in v.ravel()]
    scale = Fraction(repr(float((1 * q.unit).to_value(unit))))
    return [K.realval(K.frac_of_float(e) * scale) for e in np.asarray(q.value).ravel()]


class SigView:
    """Uniform read access to a returned signal (symbolic or real)."""

    def __init__(self, sig):
        self.sig = sig
        self.raised = isinstance(sig, Raised)
        if self.raised:
            self.exc_cls = sig.cls
            return
        self.cls = type(sig)
        d = sig.data
        self.data = d
        self.sample_shape = tuple(d.cols.shape) if isinstance(d, TArr) else tuple(d.shape[1:])
        self.dtype = np.dtype(d.dtype)
        self.length = zint(d.length) if isinstance(d, TArr) else z3.IntVal(int(d.shape[0]))
        self.nlen = None if isinstance(d, TArr) else int(d.shape[0])
        self.t0 = time_term(sig.start_time)
        self.sr = qterm(sig.sample_rate, u.Hz)
        self.cf = qterm(sig.center_freq, u.Hz) if hasattr(sig, "center_freq") else None
        self.bw = qterm(sig.chan_bw, u.Hz) if hasattr(sig, "chan_bw") else None
        self.align = getattr(sig, "freq_align", None)
        self.pol_type = getattr(sig, "pol_type", None)
        self.meta = sig.meta

    def elem(self, t, ix=()):
        """(re, im) terms of sample `t` (int or z3 int term) at sample index ix."""
        d = self.data
        if isinstance(d, TArr):
            e = d.cols[ix](zint(t))
            return cterm(e)
        return cterm(plain(d)[(int(t),) + tuple(ix)])

    def chan_freqs(self):
        return qterms(self.sig.channel_freqs, u.Hz)


def eval_closed(e, S=None):
    """Evaluate a closed/concrete-mode formula."""
    env = S.env if S is not None and not S.symbolic else {}
    ufs = S.ufs if S is not None and not S.symbolic else {}
    return evalz(e, env, ufs)
