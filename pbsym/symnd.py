"""E-arrays: real numpy object ndarrays of shadow values with a claimed numeric dtype."""
import numpy as np
import z3

from .core import (SBool, SComplex, SInt, SNum, SReal, Unsupported, root_of_unity, rv, _toreal)

_CMP = (np.less, np.greater, np.equal, np.less_equal, np.greater_equal, np.not_equal)


def plain(x):
    """ndarray view without the SymND subclass."""
    if isinstance(x, SymND):
        return np.ndarray.view(x, np.ndarray)
    return x


def _claimed_of(i):
    if isinstance(i, SymND):
        return i._claimed
    if isinstance(i, SInt):
        return np.dtype(np.int64)
    if isinstance(i, SReal):
        return np.dtype(np.float64)
    if isinstance(i, SComplex):
        return np.dtype(np.complex128)
    if isinstance(i, (bool, int, float, complex)):
        return i            # python scalars: weak promotion
    try:
        d = np.asarray(i).dtype
    except Exception:
        return np.dtype(np.float64)
    if d.kind == "O":
        return _elem_dtype(np.asarray(i))
    return d


def _elem_dtype(a):
    kinds = set()
    for e in np.asarray(a, dtype=object).ravel():
        if isinstance(e, (SComplex, complex, np.complexfloating)):
            kinds.add("c")
        elif isinstance(e, (SReal, float, np.floating)):
            kinds.add("f")
        elif isinstance(e, (SInt, int, np.integer)):
            kinds.add("i")
        elif isinstance(e, (SBool, bool, np.bool_)):
            kinds.add("b")
        else:
            kinds.add("f")
    if "c" in kinds:
        return np.dtype(np.complex128)
    if "f" in kinds:
        return np.dtype(np.float64)
    if "i" in kinds:
        return np.dtype(np.int64)
    if kinds == {"b"}:
        return np.dtype(bool)
    return np.dtype(np.float64)


def result_dtype(items):
    cl = [_claimed_of(i) for i in items]
    try:
        return np.result_type(*cl)
    except Exception:
        return np.dtype(np.float64)


_FLOAT_RESULT = (np.true_divide, np.exp, np.sqrt, np.floor, np.ceil, np.rint)


class SymND(np.ndarray):
    """object ndarray with a claimed numeric dtype"""

    def __new__(cls, arr, claimed=None):
        a = np.asarray(plain(arr), dtype=object)
        obj = a.view(cls)
        obj._claimed = np.dtype(claimed) if claimed is not None else _elem_dtype(a)
        return obj

    def __array_finalize__(self, obj):
        self._claimed = getattr(obj, "_claimed", np.dtype(np.float64))

    @property
    def dtype(self):
        return self._claimed

    def view(self, *a, **k):
        if a and a[0] is np.ndarray:
            return np.ndarray.view(self, np.ndarray)
        return np.ndarray.view(self, *a, **k)

    def astype(self, dt, order="K", casting="unsafe", subok=True, copy=True):
        dt = np.dtype(dt)
        if not np.can_cast(self._claimed, dt, casting=casting):
            raise TypeError(
                f"Cannot cast array data from {self._claimed!r} to {dt!r} according to the rule '{casting}'")
        base = plain(self)
        if dt.kind in "fiu" and self._claimed.kind == "c":
            out = np.empty(base.shape, dtype=object)
            for ix in np.ndindex(*base.shape):
                out[ix] = base[ix].real
        elif dt.kind in "iu" and self._claimed.kind == "f":
            out = np.empty(base.shape, dtype=object)
            for ix in np.ndindex(*base.shape):
                e = base[ix]
                out[ix] = e.__trunc__() if isinstance(e, SReal) else (int(e) if not isinstance(e, SInt) else e)
        elif dt.kind == "b":
            out = np.empty(base.shape, dtype=object)
            for ix in np.ndindex(*base.shape):
                out[ix] = base[ix] != 0
        else:
            out = np.array(base, dtype=object, copy=True)
        return SymND(out, dt)

    def __getitem__(self, index):
        from .tarr import SymSlice, slice_needs_sym
        idx = index if isinstance(index, tuple) else (index,)
        if any(type(i) is SymSlice or slice_needs_sym(i) for i in idx):
            new = []
            for ax, i in enumerate(idx):
                if type(i) is SymSlice or slice_needs_sym(i):
                    # normalised bounds are concretised (bounded fork: 0..n), raw bounds stay symbolic
                    start, stop, step = SymSlice.of(i).indices(self.shape[ax])
                    i = slice(start.__index__(), stop.__index__(), step)
                new.append(i)
            index = tuple(new)
        return np.ndarray.__getitem__(self, index)

    def __setitem__(self, index, value):
        """Assignment through a time-axis slice with symbolic bounds becomes an element-wise ite
        (no concretisation fork); everything else is NumPy's own setitem."""
        import builtins
        from .tarr import SymSlice, has_shadow
        idx = index if isinstance(index, tuple) else (index,)
        first = idx[0] if idx else None
        symbolic = isinstance(first, builtins.slice) and any(has_shadow(v) for v in (first.start, first.stop, first.step))
        if not symbolic:
            if isinstance(value, SymND):
                value = plain(value)
            return np.ndarray.__setitem__(plain(self), index, value)
        if any(isinstance(i, builtins.slice) and any(has_shadow(v) for v in (i.start, i.stop, i.step)) for i in idx[1:]):
            raise Unsupported("symbolic slice on a sample axis in setitem")
        start, stop, step = SymSlice.of(first).indices(self.shape[0])
        if step != 1:
            raise Unsupported("setitem with symbolic slice and step != 1")
        if isinstance(value, np.ndarray) and value.ndim > 0:
            raise Unsupported("setitem of an array through a symbolic slice")
        base = plain(self)
        from .tarr import _ite_elem
        for n in range(self.shape[0]):
            cond = z3.And(start.e <= n, n < stop.e)
            sub = base[(n,) + tuple(idx[1:])]
            if isinstance(sub, np.ndarray):
                for ix in np.ndindex(*sub.shape):
                    sub[ix] = _ite_elem(cond, value, sub[ix])
            else:
                base[(n,) + tuple(idx[1:])] = _ite_elem(cond, value, sub)

    def copy(self, order="C"):
        return SymND(np.array(plain(self), dtype=object, copy=True), self._claimed)

    def __array_ufunc__(self, ufunc, method, *inputs, out=None, **kw):
        ins = tuple(plain(i) for i in inputs)
        kw.pop("dtype", None)
        if out is not None:
            outs = tuple(plain(o) for o in out)
            getattr(ufunc, method)(*ins, out=outs, **kw)
            return out[0] if len(out) == 1 else out
        r = getattr(ufunc, method)(*ins, **kw)
        if method != "__call__":
            return r
        if ufunc in _CMP:
            return r
        rd = result_dtype(inputs)
        if ufunc in _FLOAT_RESULT and rd.kind in "iub":
            rd = np.dtype(np.float64)

        def rw(x):
            return SymND(x, rd) if isinstance(x, np.ndarray) else x
        if isinstance(r, tuple):
            return tuple(rw(x) for x in r)
        return rw(r)

    def __array_function__(self, func, types, args, kwargs):
        claimed = []

        def strip(x):
            if isinstance(x, SymND):
                claimed.append(x)
                return plain(x)
            if isinstance(x, (list, tuple)):
                return type(x)(strip(y) for y in x)
            return x
        a2 = strip(args)
        k2 = {k: strip(v) for k, v in kwargs.items()}
        r = func(*a2, **k2)
        rd = result_dtype(claimed) if claimed else np.dtype(np.float64)

        def rw(x):
            if isinstance(x, np.ndarray) and x.dtype == object:
                return SymND(x, rd)
            return x
        if isinstance(r, (tuple, list)):
            return type(r)(rw(x) for x in r)
        return rw(r)

    @property
    def real(self):
        base = plain(self)
        out = np.empty(base.shape, dtype=object)
        for ix in np.ndindex(*base.shape):
            out[ix] = base[ix].real
        cl = {np.dtype(np.complex64): np.float32, np.dtype(np.complex128): np.float64}.get(self._claimed, self._claimed)
        return SymND(out, cl)

    @property
    def imag(self):
        base = plain(self)
        out = np.empty(base.shape, dtype=object)
        for ix in np.ndindex(*base.shape):
            e = base[ix]
            out[ix] = e.imag if hasattr(e, "imag") else 0
        cl = {np.dtype(np.complex64): np.float32, np.dtype(np.complex128): np.float64}.get(self._claimed, self._claimed)
        return SymND(out, cl)

    def conj(self):
        return np.conjugate(self)
    conjugate = conj

    def round(self, decimals=0, out=None):
        if decimals != 0:
            raise Unsupported("round to decimals")
        base = plain(self)
        o = np.empty(base.shape, dtype=object)
        for ix in np.ndindex(*base.shape):
            e = base[ix]
            o[ix] = e.rint() if isinstance(e, SNum) else round(e)
        return SymND(o, self._claimed)

    def __repr__(self):
        return f"SymND(shape={self.shape}, claimed={self._claimed})"


# ---------------------------------------------------------------------------
def sym_complex_array(ctx, name, shape, dtype=np.complex128):
    a = np.empty(shape, dtype=object)
    for ix in np.ndindex(*shape):
        s = "_".join(map(str, ix))
        a[ix] = SComplex(ctx.real(f"{name}r_{s}").e, ctx.real(f"{name}i_{s}").e)
    return SymND(a, dtype)


def sym_real_array(ctx, name, shape, dtype=np.float64):
    a = np.empty(shape, dtype=object)
    for ix in np.ndindex(*shape):
        s = "_".join(map(str, ix))
        a[ix] = ctx.real(f"{name}_{s}")
    return SymND(a, dtype)


def sym_dft(x, axis=0, inverse=False, n=None):
    """Exact DFT along axis using exact roots of unity (N | 24)."""
    x = plain(np.asarray(plain(x), dtype=object))
    N = x.shape[axis]
    if n is not None and n != N:
        raise Unsupported("fft with n != length")
    xm = np.moveaxis(x, axis, 0)
    out = np.empty(xm.shape, dtype=object)
    sgn = 1 if inverse else -1
    for k in range(N):
        acc = None
        for m in range(N):
            w = root_of_unity(N, sgn * k * m)
            term = xm[m] * w
            acc = term if acc is None else acc + term
        out[k] = acc / N if inverse else acc
    if N == 0:
        out = xm.copy()
    return np.moveaxis(out, 0, axis)


def as_complex(e):
    c = SComplex.of(e)
    if c is None:
        raise Unsupported(f"not a number: {e!r}")
    return c


def as_real_term(e):
    """z3 real term of a real-valued element (python number or shadow)."""
    if isinstance(e, SComplex):
        raise Unsupported("complex where real expected")
    t = rv(e)
    if t is None:
        raise Unsupported(f"not a number: {e!r}")
    return _toreal(t)
