"""Symbolic decimal strings: what `format(x, '.Nf')`, `str(x)` and `str(int)` return when x is a shadow number.

An `SStr` is a real `str` subclass (so `str.format`, `+`, `np.vectorize`-style plumbing and isinstance checks in the code under
analysis accept it) whose characters are *cells*:

    'c'            a concrete character
    ('d', term)    one decimal digit, term a z3 Int with 0 <= term <= 9 (constrained in the path condition)
    ('I', term)    the decimal rendering of a non-negative integer term (variable length; no positional access may cross it)

The text stored in the underlying `str` is a placeholder ('?' per digit cell, '#' per integer cell): any C-level consumer that
bypasses the overrides (`int(s)`, `float(s)`) fails loudly on it instead of silently computing with garbage.

Models of the C-level renderers (each is the documented contract of the operation on the exact value):
  * fixed point `format(x, "W.Pf")`: the digits of x * 10^P rounded to nearest (either neighbour at an exact tie), sign '-' iff x < 0 (also for "-0.00"), '+' with the
    '+' flag; integer part concretised when the intervals bound it by 9, an 'I' cell otherwise;
  * shortest repr `str(x)` for 0.25 <= x < 1: "0." followed by n in 1..17 digits, last digit non-zero, value within half an ulp
    of x (2^-55 below 0.5, 2^-54 from 0.5) and on the same side of 1/4 and 1/2 as x (repr round-trips, so it never crosses a
    double); `shortest` is not modelled beyond the non-zero last digit (an over-approximation: more renderings are admitted than
    repr can produce);
  * integer `format(i, "0Wd")`, `str(i)`: concretised when bounded by the cap, an 'I' cell for `str` of a non-negative integer.
"""
import builtins
import re
from fractions import Fraction

import numpy as _np
import z3

from . import core as K
from .core import Ctx, SBool, SInt, SReal, Unsupported

_ALLOWED = {"cells", "__class__", "__new__", "__init__", "__dict__", "__doc__", "__module__", "__reduce__", "__reduce_ex__",
            "__getattribute__", "__setattr__", "__sizeof__", "__dir__", "__subclasshook__", "__init_subclass__", "__getnewargs__",
            "__array_priority__"}


def _is_digit_cell(c):
    return (isinstance(c, str) and c.isdigit()) or (isinstance(c, tuple) and c[0] == "d")


class _Lazy:
    """constraints tying the digit variables of one rendered number to its value: added to the path only when a digit or the
    integer part is actually looked at (a string that is only measured - len(), partition('.') - costs the solver nothing)"""

    def __init__(self, ctx, cons):
        self.ctx, self.cons, self.done = ctx, list(cons), False

    def activate(self):
        if not self.done:
            self.done = True
            for c in self.cons:
                self.ctx.axiom(c)


def _cell_term(c):
    """term of a digit / integer cell, making sure the constraints that define it are on the path"""
    if len(c) > 2 and c[2] is not None:
        c[2].activate()
    return c[1]


def _digit_term(c):
    return z3.IntVal(int(c)) if isinstance(c, str) else _cell_term(c)


def activate_all(cells):
    for c in cells:
        if isinstance(c, tuple):
            _cell_term(c)


class SStr(str):
    def __new__(cls, cells):
        cells = tuple(cells)
        for c in cells:
            if not ((isinstance(c, str) and len(c) == 1) or (isinstance(c, tuple) and c[0] in ("d", "I"))):
                raise K.HarnessError(f"bad cell {c!r}")
        s = str.__new__(cls, "".join(c if isinstance(c, str) else ("?" if c[0] == "d" else "#") for c in cells))
        str.__setattr__(s, "cells", cells)
        return s

    # --- guard: any str method that is not overridden here would act on the placeholder text
    def __getattribute__(self, name):
        if name in _ALLOWED or name in SStr.__dict__:
            return object.__getattribute__(self, name)
        if hasattr(str, name):
            raise Unsupported(f"str.{name} on a symbolic string")
        return object.__getattribute__(self, name)

    @staticmethod
    def of(x):
        if isinstance(x, SStr):
            return x
        if isinstance(x, str):
            return SStr(tuple(x))
        raise Unsupported(f"cannot make a symbolic string of {type(x).__name__}")

    @property
    def concrete(self):
        return all(isinstance(c, str) for c in self.cells)

    def text(self):
        """the concrete text (only when every cell is concrete)"""
        if not self.concrete:
            raise Unsupported("text of a symbolic string")
        return "".join(self.cells)

    def _fixed(self, upto=None):
        cells = self.cells if upto is None else self.cells[:upto]
        if any(isinstance(c, tuple) and c[0] == "I" for c in cells):
            raise Unsupported("positional access across a variable-length integer cell")

    def __len__(self):
        self._fixed()
        return len(self.cells)

    def __bool__(self):
        return len(self.cells) > 0

    def __iter__(self):
        self._fixed()
        return iter([SStr((c,)) if isinstance(c, tuple) else c for c in self.cells])

    def __getitem__(self, k):
        cells = self.cells
        if isinstance(k, slice):
            if k.step not in (None, 1):
                self._fixed()
                return _mk(cells[k])
            start, stop = k.start, k.stop
            n_var = [i for i, c in enumerate(cells) if isinstance(c, tuple) and c[0] == "I"]
            if not n_var:
                return _mk(cells[k])
            first = n_var[0]
            # only prefixes/suffixes that do not need the length of an integer cell
            if (start is None or 0 <= start <= first) and stop is None:
                return _mk(cells[(start or 0):])
            if (start is None or 0 <= start <= first) and stop is not None and 0 <= stop <= first:
                return _mk(cells[(start or 0):stop])
            raise Unsupported("slice across a variable-length integer cell")
        k = builtins.int(k)
        if k >= 0:
            self._fixed(k + 1)
        else:
            self._fixed()
        c = cells[k]
        return c if isinstance(c, str) else SStr((c,))

    def __add__(self, o):
        if not isinstance(o, str):
            return NotImplemented
        return _mk(self.cells + SStr.of(o).cells)

    def __radd__(self, o):
        if not isinstance(o, str):
            return NotImplemented
        return _mk(SStr.of(o).cells + self.cells)

    def __hash__(self):
        return hash(self.cells)

    def _eq_term(self, o):
        if not isinstance(o, str):
            return z3.BoolVal(False)
        o = SStr.of(o)
        a, b = self.cells, o.cells
        if any(isinstance(c, tuple) and c[0] == "I" for c in a + b):
            if a == b:
                return z3.BoolVal(True)
            raise Unsupported("comparison involving a variable-length integer cell")
        if len(a) != len(b):
            return z3.BoolVal(False)
        conj = []
        for x, y in zip(a, b):
            if isinstance(x, str) and isinstance(y, str):
                if x != y:
                    return z3.BoolVal(False)
            elif _is_digit_cell(x) and _is_digit_cell(y):
                conj.append(_digit_term(x) == _digit_term(y))
            else:
                return z3.BoolVal(False)        # a digit cell never equals a non-digit character
        return z3.And(conj) if conj else z3.BoolVal(True)

    def __eq__(self, o):
        t = z3.simplify(self._eq_term(o))
        if z3.is_true(t):
            return True
        if z3.is_false(t):
            return False
        return SBool(t)

    def __ne__(self, o):
        r = self.__eq__(o)
        return (not r) if isinstance(r, bool) else SBool(z3.Not(r.e))

    def __repr__(self):
        return "SStr(" + "".join(c if isinstance(c, str) else ("<d>" if c[0] == "d" else "<I>") for c in self.cells) + ")"

    __str__ = None

    def partition(self, sep):
        if not (isinstance(sep, str) and not isinstance(sep, SStr) and len(sep) == 1 and not sep.isdigit()):
            raise Unsupported("partition with this separator")
        for i, c in enumerate(self.cells):
            if c == sep:
                return _mk(self.cells[:i]), sep, _mk(self.cells[i + 1:])
        return self, "", ""

    def endswith(self, suffix):
        suffix = SStr.of(suffix)
        n = len(suffix.cells)
        if n == 0:
            return True
        if n > len(self.cells):
            return False
        return _mk(self.cells[-n:]) == suffix

    def startswith(self, prefix):
        prefix = SStr.of(prefix)
        n = len(prefix.cells)
        if n > len(self.cells):
            return False
        return _mk(self.cells[:n]) == prefix


SStr.__str__ = lambda self: self          # str(s) of a str subclass instance returns it unchanged


def _mk(cells):
    cells = tuple(cells)
    if all(isinstance(c, str) for c in cells):
        return "".join(cells)              # fully concrete: an ordinary str
    return SStr(cells)


# ---- renderers -------------------------------------------------------------------------------------------------------------------
_FIXED = re.compile(r"^([+]?)(\d*)\.(\d+)f$")
_INTSPEC = re.compile(r"^(0?)(\d*)d$")


def _fresh(prefix):
    """fresh integer constant; numbered per path (Ctx) so that re-executing a path prefix yields the same names"""
    ctx = Ctx.cur
    n = getattr(ctx, "_sstr_n", 0) + 1
    ctx._sstr_n = n
    return z3.Int(f"{prefix}{n}")


def _int_cells(ctx, I, small_cap=9, lazy=None):
    """cells of a non-negative integer term: concrete digits when the path bounds it by `small_cap`, else one 'I' cell"""
    I = z3.simplify(I)
    if z3.is_int_value(I):
        return tuple(builtins.str(I.as_long()))
    pending = [] if lazy is None or lazy.done else lazy.cons
    if ctx._check(*(pending + [I > small_cap]))[0] == "unsat":
        if lazy is not None:
            lazy.activate()
        v = ctx.choose_int(I, cap=small_cap + 2)
        return tuple(builtins.str(v))
    return (("I", I, lazy),)


def format_fixed(x, spec):
    """model of format(float, 'W.Pf') on the exact value x (SReal/SInt)"""
    m = _FIXED.match(spec)
    if not m:
        raise Unsupported(f"format spec {spec!r} on a symbolic number")
    plus, width, prec = m.group(1) == "+", m.group(2), builtins.int(m.group(3))
    if width not in ("", "0", "1"):
        raise Unsupported(f"format width {width!r} on a symbolic number")
    ctx = Ctx.cur
    xe = K._toreal(x.e)
    neg = bool(SBool(xe < 0))
    ax = -xe if neg else xe
    it = getattr(x, "int_term", None)
    if isinstance(x, SInt):
        it = x.e
    if it is not None:
        # an integer-valued number: its digits are those of the integer, the decimals are zeros (no rounding to model)
        cells = (("-",) if (neg or getattr(x, "minus", False)) else (("+",) if plus else ())) + _int_cells(ctx, z3.If(it < 0, -it, it))
        if prec:
            cells += (".",) + ("0",) * prec
        return _mk(cells)
    scale = 10 ** prec
    D = _fresh("fmtD")
    Dr = z3.ToReal(D)
    y = ax * scale
    I = _fresh("fmtI")
    digs = [_fresh("fmtd") for _ in range(prec)]
    # correct rounding of the exact value; at an exact tie either neighbour is admitted (the renderer rounds half to even on the
    # binary value - leaving the tie open over-approximates and keeps the constraints free of `mod`)
    lazy = _Lazy(ctx, [z3.And(D >= 0, 2 * (Dr - y) <= 1, 2 * (y - Dr) <= 1),
                       z3.And([I >= 0] + [z3.And(d >= 0, d <= 9) for d in digs]),
                       (D == I * scale + z3.Sum([d * 10 ** (prec - 1 - i) for i, d in enumerate(digs)])) if digs else (D == I)])
    cells = (("-",) if neg else (("+",) if plus else ())) + _int_cells(ctx, I, lazy=lazy)
    if prec:
        cells += (".",) + tuple(("d", d, lazy) for d in digs)
    return _mk(cells)


def str_shortest(x):
    """model of str(float) for an exact value 0.25 <= x < 1 (see module docstring)"""
    ctx = Ctx.cur
    xe = K._toreal(x.e)
    if ctx._check(z3.Or(xe < z3.RealVal(1) / 4, xe >= 1))[0] != "unsat":
        raise Unsupported("str() of a symbolic real outside [0.25, 1)")
    n = _choose_len(ctx)
    digs = [_fresh("reprd") for _ in range(n)]
    ctx.axiom(z3.And([z3.And(d >= 0, d <= 9) for d in digs] + [digs[-1] != 0]))
    v = z3.Sum([z3.ToReal(d) * z3.RealVal(Fraction(1, 10 ** (i + 1))) for i, d in enumerate(digs)])
    half_ulp = z3.If(xe < z3.RealVal(1) / 2, z3.RealVal(Fraction(1, 2 ** 55)), z3.RealVal(Fraction(1, 2 ** 54)))
    ctx.axiom(z3.And(v - xe <= half_ulp, xe - v <= half_ulp))
    # repr round-trips (float(repr(x)) == x), so it never crosses a double: here the binade edges 1/4 and 1/2
    q, h = z3.RealVal(1) / 4, z3.RealVal(1) / 2
    ctx.axiom(z3.And(v >= q, (v < h) == (xe < h)))
    return _mk(("0", ".") + tuple(("d", d) for d in digs))


def _choose_len(ctx):
    nv = _fresh("reprn")
    ctx.axiom(z3.And(nv >= 1, nv <= 17))
    return ctx.choose_int(nv, cap=20)


def format_int(i, spec):
    m = _INTSPEC.match(spec)
    if not m:
        raise Unsupported(f"format spec {spec!r} on a symbolic integer")
    v = Ctx.cur.choose_int(i.e, cap=256)
    return builtins.format(v, spec)


def _format_hook(x, spec):
    if isinstance(x, SInt):
        if spec.endswith("d") or spec == "":
            return format_int(x, spec or "d")
        return format_fixed(x, spec)
    if isinstance(x, SReal):
        return format_fixed(x, spec)
    raise Unsupported(f"format of {type(x).__name__}")


def sym_str(x="", *a, **k):
    """stand-in for builtin str() in the module under analysis"""
    if a or k:
        return builtins.str(x, *a, **k)
    if isinstance(x, _np.ndarray) and x.ndim == 0 and x.dtype == object:
        x = x[()]
    if isinstance(x, SStr):
        return x
    if isinstance(x, SInt):
        ctx = Ctx.cur
        e = z3.simplify(x.e)
        if z3.is_int_value(e):
            return builtins.str(e.as_long())
        neg = bool(SBool(e < 0))
        return _mk((("-",) if neg else ()) + _int_cells(ctx, -e if neg else e))
    if isinstance(x, SReal):
        return str_shortest(x)
    return builtins.str(x)


class SFloatOfStr(SReal):
    """float(s) of a symbolic string: the value, remembering a leading '-' (a float keeps the sign of zero, and formatting shows it)"""
    minus = False
    int_term = None


def sym_float(x=0.0):
    if isinstance(x, _np.ndarray) and x.ndim == 0 and x.dtype == object:
        x = x[()]
    if isinstance(x, SStr):
        val = value_of_cells(x.cells)
        if val is None:
            raise ValueError(f"could not convert string to float: {x!r}")
        r = SFloatOfStr(val["value"])
        r.minus = val["sign"] == "-"
        r.int_term = val.get("int_term")          # set when the string had no fractional digits
        return r
    if isinstance(x, (SReal, SInt)):
        return SReal(K._toreal(x.e))
    return builtins.float(x)


def sym_int_str(fallback):
    """int() stand-in that also understands symbolic digit strings; anything else goes to `fallback` (pbsym.stubs.sym_int)"""
    def _int(x=0, *a, **k):
        if isinstance(x, SStr):
            if a or k:
                raise Unsupported("int(symbolic string, base)")
            cells = x.cells
            if cells and all(_is_digit_cell(c) for c in cells):
                n = len(cells)
                return SInt(z3.Sum([_digit_term(c) * 10 ** (n - 1 - i) for i, c in enumerate(cells)]))
            vc = value_of_cells(cells) if cells else None          # [+-]digits or [+-]<integer cell>
            if vc is None or vc["dot"]:
                raise ValueError(f"invalid literal for int() with base 10: {x!r}")
            return SInt(vc["int_term"])
        if isinstance(x, str):
            return builtins.int(x, *a, **k)
        return fallback(x, *a, **k)
    return _int


def sym_format(x, spec=""):
    if isinstance(x, _np.ndarray) and x.ndim == 0 and x.dtype == object:
        x = x[()]
    if isinstance(x, SFloatOfStr):
        r = format_fixed(x, spec)
        if x.minus and not (isinstance(r, str) and r.startswith("-") if not isinstance(r, SStr) else r.cells[0] == "-"):
            cells = SStr.of(r).cells
            if cells and cells[0] == "+":
                cells = cells[1:]
            r = _mk(("-",) + cells)
        return r
    if isinstance(x, (SReal, SInt)):
        return _format_hook(x, spec)
    return builtins.format(x, spec)


# ---- reading a rendered number back (oracle side) ------------------------------------------------------------------------------------
def value_of_cells(cells):
    """{'sign','value' (z3 real, signed),'ndec','dot','wellformed' } of cells shaped [+-]? digits/I+ ('.' digits*)?; None if not of that shape"""
    cells = list(cells)
    sign = ""
    if cells and cells[0] in ("+", "-"):
        sign = cells.pop(0)
    ip, i = [], 0
    while i < len(cells) and (_is_digit_cell(cells[i]) or (isinstance(cells[i], tuple) and cells[i][0] == "I")):
        ip.append(cells[i])
        i += 1
    if not ip:
        return None
    if any(isinstance(c, tuple) and c[0] == "I" for c in ip):
        if len(ip) != 1:
            return None          # an integer cell next to digits: not a shape the renderers produce
        iv = z3.ToReal(_cell_term(ip[0]))
    else:
        n = len(ip)
        iv = z3.ToReal(z3.Sum([_digit_term(c) * 10 ** (n - 1 - k) for k, c in enumerate(ip)])) if n > 1 else z3.ToReal(_digit_term(ip[0]))
    rest = cells[i:]
    dot = False
    fr = z3.RealVal(0)
    ndec = 0
    if rest:
        if rest[0] != ".":
            return None
        dot = True
        decs = rest[1:]
        if not all(_is_digit_cell(c) for c in decs):
            return None
        ndec = len(decs)
        if decs:
            fr = z3.Sum([z3.ToReal(_digit_term(c)) * z3.RealVal(Fraction(1, 10 ** (k + 1))) for k, c in enumerate(decs)])
    v = iv + fr
    out = {"sign": sign, "value": -v if sign == "-" else v, "ndec": ndec, "dot": dot}
    if ndec == 0:
        ii = z3.simplify(z3.ToInt(iv))
        out["int_term"] = -ii if sign == "-" else ii
    return out


def install():
    K.SNum.__format__ = lambda s, spec: _format_hook(s, spec)


install()
