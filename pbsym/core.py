"""pbsym core: shadow values over z3 terms and a DFS path explorer (by re-execution).

The real pulsarbat functions are executed on these shadow values; every Python
``if`` on a shadow boolean asks the solver, every ``int()``/``__index__`` on a
shadow integer is a bounded concretisation fork.  See DESIGN.md section 2.
"""
import math
import numbers
import os
import time
from fractions import Fraction

import numpy as np
import z3


class PathAbort(BaseException):
    """Current path is infeasible (not an error)."""


class Unsupported(BaseException):
    """Operation cannot be modelled -> the whole unit is INCONCLUSIVE."""


class HarnessError(BaseException):
    """Non-deterministic re-execution or internal inconsistency."""


# ---------------------------------------------------------------------------
# symbolic constants shared by code-side and spec-side
PI = z3.Real("pi")
SQRT2 = z3.Real("sqrt2")
SQRT3 = z3.Real("sqrt3")
CONST_AXIOMS = {
    "pi": [PI > z3.RealVal("3.1415926"), PI < z3.RealVal("3.1415927")],
    "sqrt2": [SQRT2 * SQRT2 == 2, SQRT2 > 0],
    "sqrt3": [SQRT3 * SQRT3 == 3, SQRT3 > 0],
}
CONST_VALUES = {
    "pi": Fraction(math.pi),
    "sqrt2": Fraction(math.sqrt(2.0)),
    "sqrt3": Fraction(math.sqrt(3.0)),
}

_PI_FLOATS = {}
for _k, _e in ((math.pi, PI), (2 * math.pi, 2 * PI), (math.pi / 2, PI / 2),
               (math.pi / 4, PI / 4), (4 * math.pi, 4 * PI)):
    _PI_FLOATS[_k] = _e
    _PI_FLOATS[-_k] = -_e


def frac_of_float(x):
    """Rational a float literal stands for: its shortest decimal repr."""
    x = float(x)
    if x != x or x in (float("inf"), float("-inf")):
        raise Unsupported(f"non-finite float {x}")
    return Fraction(repr(x))


def realval(fr):
    fr = Fraction(fr)
    return z3.RealVal(f"{fr.numerator}/{fr.denominator}")


# ---------------------------------------------------------------------------
class Ctx:
    """One path of one unit.  ``Ctx.cur`` is the active context."""

    cur = None
    query_timeout_ms = 60000
    solver_factory = staticmethod(lambda: z3.Solver())
    deadline = None              # wall-clock limit of the running unit (set by explore): also enforced INSIDE a path
    max_ticks = 200000           # decisions (branches, concretisations) allowed on ONE path: an unbounded symbolic loop must end

    def __init__(self, prefix, stats):
        self.prefix = list(prefix)
        self.trace = []          # (decision, alternatives|None)
        self.pc = []
        self.solver = Ctx.solver_factory()
        self.solver.set("timeout", self.query_timeout_ms)
        self.stats = stats
        self.inputs = {}         # name -> z3 const
        self.ufs = {}            # name -> z3 FuncDecl (sample functions)
        self.checks = []         # (label, verdict, seconds, model|None)
        self.notes = {}
        self.used_consts = set()
        self.axioms = []         # facts about symbolic constants / uninterpreted cos,sin (not path condition)
        self.reached = False
        self.fork_cap = 64
        self.ibounds = {}        # integer input name -> [lo, hi] (None = unbounded): cheap interval pre-check for branches

    # -- solver plumbing
    def _check(self, *extra):
        t = time.time()
        if extra:
            self.solver.push()
            self.solver.add(*extra)
        r = self.solver.check()
        m = self.solver.model() if r == z3.sat else None
        if extra:
            self.solver.pop()
        dt = time.time() - t
        self.stats["queries"] += 1
        self.stats["solver_s"] += dt
        if dt > self.stats.get("max_query_s", 0):
            self.stats["max_query_s"] = round(dt, 2)
        self.stats["q_" + str(r)] = self.stats.get("q_" + str(r), 0) + 1
        return str(r), m

    def use_const(self, name):
        if name not in self.used_consts:
            self.used_consts.add(name)
            for a in CONST_AXIOMS[name]:
                self.axiom(a)

    def axiom(self, e):
        self.solver.add(e)
        self.axioms.append(e)

    def assume(self, e):
        if isinstance(e, SBool):
            e = e.e
        if isinstance(e, bool):
            e = z3.BoolVal(e)
        self.solver.add(e)
        self.pc.append(e)
        self._learn(e)

    # -- interval reasoning on integer inputs: decides most loop comparisons without a solver call
    def _ival(self, t):
        """(lo, hi) of an Int/Real term built from numerals, bounded Int inputs, +, -, * by numeral; None if unknown"""
        if z3.is_int_value(t):
            v = t.as_long()
            return (v, v)
        if z3.is_rational_value(t):
            v = Fraction(t.numerator_as_long(), t.denominator_as_long())
            return (v, v)
        k = t.decl().kind()
        ch = t.children()
        if k == z3.Z3_OP_UNINTERPRETED and not ch:
            b = self.ibounds.get(t.decl().name())
            return tuple(b) if b is not None else None
        if k == z3.Z3_OP_TO_REAL:
            return self._ival(ch[0])
        if k == z3.Z3_OP_ADD:
            lo = hi = 0
            for c in ch:
                r = self._ival(c)
                if r is None:
                    return None
                lo = None if (lo is None or r[0] is None) else lo + r[0]
                hi = None if (hi is None or r[1] is None) else hi + r[1]
            return (lo, hi)
        if k == z3.Z3_OP_UMINUS:
            r = self._ival(ch[0])
            return None if r is None else (None if r[1] is None else -r[1], None if r[0] is None else -r[0])
        if k == z3.Z3_OP_SUB and len(ch) == 2:
            a, b = self._ival(ch[0]), self._ival(ch[1])
            if a is None or b is None:
                return None
            return (None if (a[0] is None or b[1] is None) else a[0] - b[1], None if (a[1] is None or b[0] is None) else a[1] - b[0])
        if k == z3.Z3_OP_MUL and len(ch) == 2:
            a, b = self._ival(ch[0]), self._ival(ch[1])
            if a is None or b is None:
                return None
            if a[0] is not None and a[0] == a[1]:
                c, r = a[0], b
            elif b[0] is not None and b[0] == b[1]:
                c, r = b[0], a
            else:
                return None
            lo = None if r[0] is None else c * r[0]
            hi = None if r[1] is None else c * r[1]
            if c < 0:
                lo, hi = hi, lo
            return (lo, hi) if c != 0 else (0, 0)
        return None

    def _decide(self, e):
        """truth of a comparison by intervals, or None"""
        if not self.ibounds:
            return None
        k = e.decl().kind()
        if k == z3.Z3_OP_NOT:
            r = self._decide(e.children()[0])
            return None if r is None else (not r)
        if k not in (z3.Z3_OP_LE, z3.Z3_OP_LT, z3.Z3_OP_GE, z3.Z3_OP_GT, z3.Z3_OP_EQ):
            return None
        a, b = (self._ival(c) for c in e.children())
        if a is None or b is None:
            return None
        if k in (z3.Z3_OP_GE, z3.Z3_OP_GT):
            a, b = b, a
            k = z3.Z3_OP_LE if k == z3.Z3_OP_GE else z3.Z3_OP_LT
        if k == z3.Z3_OP_LE:            # a <= b
            if a[1] is not None and b[0] is not None and a[1] <= b[0]:
                return True
            if a[0] is not None and b[1] is not None and a[0] > b[1]:
                return False
        elif k == z3.Z3_OP_LT:
            if a[1] is not None and b[0] is not None and a[1] < b[0]:
                return True
            if a[0] is not None and b[1] is not None and a[0] >= b[1]:
                return False
        elif k == z3.Z3_OP_EQ:
            if (a[1] is not None and b[0] is not None and a[1] < b[0]) or (a[0] is not None and b[1] is not None and a[0] > b[1]):
                return False
        return None

    def _learn(self, e):
        """tighten the bounds of an integer input from a simple comparison  N <= c / N >= c / Not(...) / N == c"""
        if not self.ibounds:
            return
        neg = False
        if e.decl().kind() == z3.Z3_OP_NOT:
            neg = True
            e = e.children()[0]
        k = e.decl().kind()
        if k not in (z3.Z3_OP_LE, z3.Z3_OP_GE, z3.Z3_OP_LT, z3.Z3_OP_GT, z3.Z3_OP_EQ):
            return
        a, b = e.children()
        if z3.is_int_value(a) and z3.is_const(b):
            a, b = b, a
            k = {z3.Z3_OP_LE: z3.Z3_OP_GE, z3.Z3_OP_GE: z3.Z3_OP_LE, z3.Z3_OP_LT: z3.Z3_OP_GT, z3.Z3_OP_GT: z3.Z3_OP_LT}.get(k, k)
        if not (z3.is_const(a) and a.decl().kind() == z3.Z3_OP_UNINTERPRETED and z3.is_int_value(b)):
            return
        bd = self.ibounds.get(a.decl().name())
        if bd is None:
            return
        c = b.as_long()
        if neg:
            if k == z3.Z3_OP_EQ:
                return
            k, c = {z3.Z3_OP_LE: (z3.Z3_OP_GE, c + 1), z3.Z3_OP_GE: (z3.Z3_OP_LE, c - 1),
                    z3.Z3_OP_LT: (z3.Z3_OP_GE, c), z3.Z3_OP_GT: (z3.Z3_OP_LE, c)}[k]
        if k == z3.Z3_OP_LT:
            k, c = z3.Z3_OP_LE, c - 1
        if k == z3.Z3_OP_GT:
            k, c = z3.Z3_OP_GE, c + 1
        if k == z3.Z3_OP_LE:
            bd[1] = c if bd[1] is None else min(bd[1], c)
        elif k == z3.Z3_OP_GE:
            bd[0] = c if bd[0] is None else max(bd[0], c)
        elif k == z3.Z3_OP_EQ:
            bd[0] = bd[1] = c

    def _feasible(self, e):
        r, _ = self._check(e)
        if r == "unknown":
            raise Unsupported("solver returned unknown on a branch condition")
        return r == "sat"

    def _tick(self):
        self._ticks = getattr(self, "_ticks", 0) + 1
        if self._ticks > self.max_ticks:
            raise Unsupported(f"more than {self.max_ticks} decisions on one path (a loop whose trip count the path condition does not bound)")
        if Ctx.deadline is not None and self._ticks % 64 == 0 and time.time() > Ctx.deadline:
            raise Unsupported("unit time budget exceeded")

    def branch(self, e):
        self._tick()
        e = z3.simplify(e)
        if z3.is_true(e):
            return True
        if z3.is_false(e):
            return False
        d = self._decide(e)
        if d is not None:
            self.stats["interval_decided"] = self.stats.get("interval_decided", 0) + 1
            return d
        i = len(self.trace)
        if i < len(self.prefix):
            v = self.prefix[i]
            if not isinstance(v, bool):
                raise HarnessError("replayed decision kind mismatch (bool expected)")
            self.trace.append((v, None))
        else:
            t = self._feasible(e)
            f = self._feasible(z3.Not(e))
            if t and f:
                v = True
                self.trace.append((True, [False]))
            elif t:
                v = True
                self.trace.append((True, []))
            elif f:
                v = False
                self.trace.append((False, []))
            else:
                raise PathAbort("infeasible")
            self.stats["branches"] += 1
        self.assume(e if v else z3.Not(e))
        return v

    def choose_int(self, e, cap=None):
        self._tick()
        e = z3.simplify(e)
        if z3.is_int_value(e):
            return e.as_long()
        cap = cap or self.fork_cap
        i = len(self.trace)
        if i < len(self.prefix):
            v = self.prefix[i]
            if isinstance(v, bool):
                raise HarnessError("replayed decision kind mismatch (int expected)")
            self.trace.append((v, None))
        else:
            vals = []
            self.solver.push()
            while True:
                r, m = self._check()
                if r == "unknown":
                    self.solver.pop()
                    raise Unsupported("unknown during concretisation")
                if r != "sat":
                    break
                mv = m.eval(e, model_completion=True)
                if z3.is_int_value(mv):
                    v = mv.as_long()
                else:
                    # e.g. to_int of an algebraic number in a model from the nonlinear solver
                    try:
                        v = int(evalz(mv, {}))
                    except (KeyError, ZeroDivisionError):
                        self.solver.pop()
                        raise Unsupported(f"model value of {e} is not a numeral: {mv}")
                    rchk, _ = self._check(e == v)
                    if rchk != "sat":
                        self.solver.pop()
                        raise Unsupported(f"could not confirm approximate model value {v} of {e}")
                vals.append(v)
                self.solver.add(e != v)
                if len(vals) > cap:
                    self.solver.pop()
                    raise Unsupported(f"concretisation fork exceeds cap {cap}: {e}")
            self.solver.pop()
            if not vals:
                raise PathAbort("infeasible")
            vals.sort()
            v = vals[0]
            self.trace.append((v, vals[1:]))
            self.stats["branches"] += 1
        self.assume(e == v)
        return v

    # -- inputs
    def real(self, name):
        c = z3.Real(name)
        self.inputs[name] = c
        return SReal(c)

    def fp(self, name, sort=None):
        from .fp import SFP
        c = z3.FP(name, sort or SFP.SORT)
        self.inputs[name] = c
        return SFP(c)

    def int(self, name, lo=None, hi=None):
        c = z3.Int(name)
        self.inputs[name] = c
        self.ibounds[name] = [None, None]
        if lo is not None:
            self.assume(c >= lo)
        if hi is not None:
            self.assume(c <= hi)
        return SInt(c)

    def bool(self, name):
        c = z3.Bool(name)
        self.inputs[name] = c
        return SBool(c)

    def uf(self, name, *sorts):
        f = z3.Function(name, *sorts)
        self.ufs[name] = f
        return f

    # -- property queries
    def check(self, label, bad):
        """Query PC and bad.  unsat = property holds on every input of this path."""
        if isinstance(bad, SBool):
            bad = bad.e
        if isinstance(bad, (bool, np.bool_)):
            bad = z3.BoolVal(bool(bad))
        if isinstance(bad, (list, tuple)):
            bad = z3.Or([b.e if isinstance(b, SBool) else (z3.BoolVal(bool(b)) if isinstance(b, (bool, np.bool_)) else b) for b in bad]) if bad else z3.BoolVal(False)
        if not self.reached:
            # reachability twin: the assumptions and decisions of this path must be satisfiable, otherwise every
            # property query on it would pass vacuously
            r0, _ = self._check()
            if r0 == "unsat":
                self.stats["vacuous_paths"] = self.stats.get("vacuous_paths", 0) + 1
                raise PathAbort("path condition unsatisfiable at the first property check")
            if r0 == "unknown":
                raise Unsupported("satisfiability of the path condition is unknown (vacuity guard)")
        self.reached = True
        t = time.time()
        bad_s = z3.simplify(bad)
        if z3.is_false(bad_s):
            self.checks.append((label, "unsat", 0.0, None))
            self.stats["trivial_checks"] = self.stats.get("trivial_checks", 0) + 1
            return "unsat"
        # first try with only those path-condition conjuncts that talk about the variables of the property formula
        # (fewer premises: an unsat answer carries over to the full path condition; anything else falls through)
        vs = free_consts(bad_s)
        sel = [p for p in self.pc if free_consts(p) <= vs]
        if len(sel) < len(self.pc) + len(self.axioms) and not os.environ.get('PBSYM_NO_ISOLATE'):
            names = {str(v) for v in vs}
            s2 = z3.Solver()
            s2.set("timeout", min(self.query_timeout_ms, 10000))
            for p in sel:
                s2.add(p)
            for cn in CONST_AXIOMS:
                if cn in names:
                    s2.add(*CONST_AXIOMS[cn])
            s2.add(bad_s)
            t1 = time.time()
            r0 = str(s2.check())
            self.stats["queries"] += 1
            self.stats["solver_s"] += time.time() - t1
            if r0 == "unsat":
                self.stats["q_unsat"] = self.stats.get("q_unsat", 0) + 1
                self.stats["isolated_unsat"] = self.stats.get("isolated_unsat", 0) + 1
                self.checks.append((label, "unsat", time.time() - t, None))
                return "unsat"
        r, m = self._check(bad)
        vals = model_values(m, self.inputs) if m is not None else None
        self.checks.append((label, r, time.time() - t, vals))
        return r

    def diverse_model(self, rng, *extra):
        """A model of the path condition with as many inputs as possible pinned to small random values."""
        self.solver.push()
        try:
            for e in extra:
                self.solver.add(e)
            names = list(self.inputs)
            rng.shuffle(names)
            for n in names:
                c = self.inputs[n]
                if c.sort() == z3.IntSort():
                    b = self.ibounds.get(n) or [None, None]
                    if b[0] is not None and b[1] is not None and b[1] - b[0] > 6:
                        if b[1] - b[0] > 1000 and rng.random() < 0.7:
                            v = z3.IntVal(b[0] + rng.randint(0, 4))     # huge range: mostly small values near the lower end
                        else:
                            v = z3.IntVal(rng.randint(b[0], b[1]))      # bounded input: anywhere in its range
                    else:
                        v = z3.IntVal(rng.randint(-3, 3))
                elif c.sort() == z3.RealSort():
                    v = realval(Fraction(rng.randint(-12, 12), 4))
                elif z3.is_fp_sort(c.sort()):
                    v = z3.FPVal(rng.choice([0.0, 0.5, -0.5, 0.25, -0.375, 1.0, -2.0, 3.0, 0.4999999999999999, 2.0**-53, 7.0, -7.0,
                                             2.0**52, -(2.0**52), 2.0**32, 1e-300, 123456.0]), c.sort())
                else:
                    continue
                self.solver.push()
                self.solver.add(c == v)
                r, _ = self._check()
                if r != "sat":
                    self.solver.pop()
            r, m = self._check()
            return model_values(m, self.inputs) if r == "sat" else None
        finally:
            self.solver.pop()

    def model_of_pc(self, *extra):
        r, m = self._check(*extra)
        if r != "sat":
            return None
        return model_values(m, self.inputs)


_FC_CACHE = {}


def free_consts(e):
    """set of uninterpreted constants (as z3 terms, hashed by id) occurring in e"""
    k = e.get_id()
    if k in _FC_CACHE:
        return _FC_CACHE[k]
    out = set()
    seen = set()
    stack = [e]
    while stack:
        t = stack.pop()
        i = t.get_id()
        if i in seen:
            continue
        seen.add(i)
        if z3.is_const(t) and t.decl().kind() == z3.Z3_OP_UNINTERPRETED:
            out.add(t)
        else:
            stack.extend(t.children())
    out = frozenset(out)
    if len(_FC_CACHE) > 20000:
        _FC_CACHE.clear()
    _FC_CACHE[k] = out
    return out


def num_value(v):
    if z3.is_int_value(v):
        return v.as_long()
    if z3.is_rational_value(v):
        return Fraction(v.numerator_as_long(), v.denominator_as_long())
    if z3.is_algebraic_value(v):
        a = v.approx(20)
        return Fraction(float(Fraction(a.numerator_as_long(), a.denominator_as_long())))     # (a double is all a replay can use)
    if z3.is_true(v):
        return True
    if z3.is_false(v):
        return False
    if z3.is_fp(v):
        from .fp import fp_value
        return fp_value(v)
    raise Unsupported(f"cannot read model value {v}")


def model_values(m, inputs):
    out = {}
    for name, c in inputs.items():
        out[name] = num_value(m.eval(c, model_completion=True))
    return out


def explore(fn, max_paths=20000, deadline=None, stop=None):
    """Run fn(ctx) over every feasible decision sequence.  Returns (ctxs, stats)."""
    stats = {"paths": 0, "branches": 0, "queries": 0, "solver_s": 0.0, "aborted": 0}
    stack = [[]]
    done = []
    Ctx.deadline = deadline
    while stack:
        prefix = stack.pop()
        ctx = Ctx(prefix, stats)
        Ctx.cur = ctx
        try:
            ctx.result = fn(ctx)
            done.append(ctx)
        except PathAbort:
            stats["aborted"] += 1
            ctx.result = None
        except BaseException as e:
            if stop is not None and isinstance(e, stop):
                done.append(ctx)
                stats["paths"] += 1
                stats["stopped_early"] = True
                ctx.solver = None
                Ctx.cur = None
                return done, stats
            raise
        finally:
            Ctx.cur = None
        stats["paths"] += 1
        dec = [t[0] for t in ctx.trace]
        if len(dec) < len(prefix):
            raise HarnessError("re-execution consumed fewer decisions than its prefix")
        for i in range(len(prefix), len(ctx.trace)):
            for a in (ctx.trace[i][1] or []):
                stack.append(dec[:i] + [a])
        ctx.solver = None  # free
        if stats["paths"] > max_paths:
            raise Unsupported(f"path cap {max_paths} exceeded")
        if deadline is not None and time.time() > deadline:
            raise Unsupported("unit time budget exceeded")
    return done, stats


# ---------------------------------------------------------------------------
def rv(x):
    """z3 term of a Python/NumPy/shadow real number, or None."""
    if isinstance(x, (SInt, SReal)):
        return x.e
    if hasattr(x, "unit"):          # astropy Quantity: let its own operators handle it
        return None
    if isinstance(x, np.ndarray) and x.ndim == 0:
        return rv(x[()])
    if isinstance(x, (bool, np.bool_)):
        return z3.IntVal(int(x))
    if isinstance(x, (int, np.integer)):
        return z3.IntVal(int(x))
    if isinstance(x, (float, np.floating)):
        xf = float(x)
        if xf in _PI_FLOATS:
            if Ctx.cur is not None:
                Ctx.cur.use_const("pi")
            return _PI_FLOATS[xf]
        return realval(frac_of_float(xf))
    if isinstance(x, Fraction):
        return realval(x)
    return None


def _toreal(e):
    return z3.ToReal(e) if e.sort() == z3.IntSort() else e


def rdiv(a, b):
    """a / b for z3 real terms; division by the algebraic constants is rewritten as a multiplication
    (x/sqrt2 = x*sqrt2/2) so that terms stay polynomial."""
    if z3.eq(b, SQRT2):
        return a * SQRT2 / 2
    if z3.eq(b, SQRT3):
        return a * SQRT3 / 3
    return a / b


def reduce_consts(e):
    """polynomial normal form, with sqrt2^2 -> 2 and sqrt3^2 -> 3 applied"""
    d = z3.simplify(e, som=True, mul_to_power=True)
    subs = []
    for c, v in ((SQRT2, 2), (SQRT3, 3)):
        for p in range(8, 1, -1):
            subs.append((c ** p, (RealVal_int(v ** (p // 2)) * c) if p % 2 else RealVal_int(v ** (p // 2))))
    d2 = z3.substitute(d, *subs)
    if not z3.eq(d, d2):
        d2 = z3.simplify(d2, som=True, mul_to_power=True)
    return d2


def RealVal_int(n):
    return z3.RealVal(n)


def wrap(e):
    s = e.sort()
    if s == z3.IntSort():
        return SInt(e)
    if s == z3.RealSort():
        return SReal(e)
    if s == z3.BoolSort():
        return SBool(e)
    raise TypeError(s)


def _is_cplx(o):
    return isinstance(o, (SComplex, complex, np.complexfloating))


class SBool:
    shape = ()
    ndim = 0
    __iter__ = None              # scalars: not iterable (the __getitem__(()) support must not make them sequences)

    def __init__(s, e):
        s.e = e

    def __bool__(s):
        if Ctx.cur is None:
            e = z3.simplify(s.e)
            if z3.is_true(e):
                return True
            if z3.is_false(e):
                return False
            raise HarnessError("symbolic bool evaluated outside an exploration")
        return Ctx.cur.branch(s.e)

    @staticmethod
    def _e(o):
        return o.e if isinstance(o, SBool) else z3.BoolVal(bool(o))

    def __and__(s, o):
        return SBool(z3.And(s.e, SBool._e(o)))
    __rand__ = __and__

    def __or__(s, o):
        return SBool(z3.Or(s.e, SBool._e(o)))
    __ror__ = __or__

    def __xor__(s, o):
        return SBool(z3.Xor(s.e, SBool._e(o)))
    __rxor__ = __xor__

    def __invert__(s):
        return SBool(z3.Not(s.e))

    def __eq__(s, o):
        return SBool(s.e == SBool._e(o))

    def __ne__(s, o):
        return SBool(s.e != SBool._e(o))
    __hash__ = None

    def __repr__(s):
        return f"SBool({s.e})"


def _binop(op, rev=False, unit_op=None):
    def f(s, o):
        if unit_op is not None and hasattr(o, "physical_type") and not hasattr(o, "unit"):
            # shadow scalar (x) astropy unit -> object-dtype Quantity (astropy itself would try to cast to float)
            import astropy.units as _u
            q = _u.Quantity(np.array(s, dtype=object), _u.dimensionless_unscaled, dtype=object)
            return unit_op(q, o)
        if _is_cplx(o):
            a, b = SComplex.of(s), SComplex.of(o)
            return op(b, a) if rev else op(a, b)
        b = rv(o)
        if b is None:
            return NotImplemented
        a = s.e
        if a.sort() != b.sort():
            a, b = _toreal(a), _toreal(b)
        return wrap(op(b, a) if rev else op(a, b))
    return f


def _cmp(op):
    def f(s, o):
        b = rv(o)
        if b is None:
            return NotImplemented
        a = s.e
        if a.sort() != b.sort():
            a, b = _toreal(a), _toreal(b)
        return SBool(op(a, b))
    return f


def _floordiv_terms(a, b):
    """Python floor division of two z3 terms (ints: Euclidean->floor fix; reals: floor(a/b))."""
    if a.sort() == z3.IntSort() and b.sort() == z3.IntSort():
        q = a / b                      # z3: Euclidean (remainder >= 0)
        r = a % b
        if z3.is_int_value(b) and b.as_long() > 0:
            return q, r
        # b<0: euclid q has a - b q = r >= 0 ; python wants remainder sign of b
        qq = z3.If(z3.And(b < 0, r != 0), q - 1, q)
        return qq, a - b * qq
    a, b = _toreal(a), _toreal(b)
    q = z3.ToInt(a / b)
    return q, a - b * z3.ToReal(q)


class SNum:
    shape = ()
    ndim = 0
    size = 1
    __iter__ = None              # scalars: not iterable (the __getitem__(()) support must not make them sequences)
    dtype = np.dtype(object)     # astropy's unit converters pass through anything that has a dtype

    def __getitem__(s, k):
        if k == () or k is Ellipsis:
            return s
        raise IndexError(k)

    def __repr__(s):
        return f"{type(s).__name__}({z3.simplify(s.e)})"

    def __bool__(s):
        return bool(SBool(s.e != 0))

    __add__ = _binop(lambda a, b: a + b)
    __radd__ = _binop(lambda a, b: a + b, True)
    __sub__ = _binop(lambda a, b: a - b)
    __rsub__ = _binop(lambda a, b: a - b, True)
    __mul__ = _binop(lambda a, b: a * b, unit_op=lambda q, un: q * un)
    __rmul__ = _binop(lambda a, b: a * b, True, unit_op=lambda q, un: q * un)

    def __truediv__(s, o):
        if _is_cplx(o):
            return SComplex.of(s) / SComplex.of(o)
        b = rv(o)
        if b is None:
            return NotImplemented
        return SReal(rdiv(_toreal(s.e), _toreal(b)))

    def __rtruediv__(s, o):
        if _is_cplx(o):
            return SComplex.of(o) / SComplex.of(s)
        b = rv(o)
        if b is None:
            return NotImplemented
        return SReal(rdiv(_toreal(b), _toreal(s.e)))

    def __floordiv__(s, o):
        b = rv(o)
        if b is None:
            return NotImplemented
        q, _ = _floordiv_terms(s.e, b)
        return SInt(q) if (s.e.sort() == z3.IntSort() and b.sort() == z3.IntSort()) else SReal(z3.ToReal(q))

    def __rfloordiv__(s, o):
        b = rv(o)
        if b is None:
            return NotImplemented
        q, _ = _floordiv_terms(b, s.e)
        return SInt(q) if (s.e.sort() == z3.IntSort() and b.sort() == z3.IntSort()) else SReal(z3.ToReal(q))

    def __mod__(s, o):
        b = rv(o)
        if b is None:
            return NotImplemented
        _, r = _floordiv_terms(s.e, b)
        return wrap(r)

    def __rmod__(s, o):
        b = rv(o)
        if b is None:
            return NotImplemented
        _, r = _floordiv_terms(b, s.e)
        return wrap(r)

    def __divmod__(s, o):
        return s // o, s % o

    def __pow__(s, o):
        if isinstance(o, (int, np.integer)) or (isinstance(o, float) and float(o).is_integer()):
            n = int(o)
            if n == 0:
                return wrap(z3.RealVal(1) if s.e.sort() == z3.RealSort() else z3.IntVal(1))
            r = s
            for _ in range(abs(n) - 1):
                r = r * s
            return r if n > 0 else 1 / r
        raise Unsupported(f"power with exponent {o!r}")

    def __neg__(s):
        return wrap(-s.e)

    def __pos__(s):
        return s

    def __abs__(s):
        return wrap(z3.If(s.e >= 0, s.e, -s.e))

    __lt__ = _cmp(lambda a, b: a < b)
    __le__ = _cmp(lambda a, b: a <= b)
    __gt__ = _cmp(lambda a, b: a > b)
    __ge__ = _cmp(lambda a, b: a >= b)
    __eq__ = _cmp(lambda a, b: a == b)
    __ne__ = _cmp(lambda a, b: a != b)
    __hash__ = None

    def conjugate(s):
        return s
    conj = conjugate

    @property
    def real(s):
        return s

    @property
    def imag(s):
        return SInt(z3.IntVal(0)) if isinstance(s, SInt) else SReal(z3.RealVal(0))

    def sqrt(s):
        raise Unsupported("sqrt of a symbolic real")

    def exp(s):
        raise Unsupported("exp of a symbolic real")

    def sign(s):
        return SInt(z3.If(s.e > 0, 1, z3.If(s.e < 0, -1, 0)))

    def fmod(s, o):
        """C fmod: remainder with the sign of the dividend"""
        b = rv(o)
        if b is None:
            raise Unsupported("fmod with a non-number")
        a = s.e
        both_int = a.sort() == z3.IntSort() and b.sort() == z3.IntSort()
        ar, br = _toreal(a), _toreal(b)
        q = trunc_term(ar / br)
        r = ar - br * z3.ToReal(q)
        return SInt(z3.ToInt(r)) if both_int else SReal(r)

    def item(s):
        return s

    def copy(s):
        return s

    def __copy__(s):
        return s

    def __deepcopy__(s, memo):
        return s


class SInt(SNum):
    def __init__(s, e):
        s.e = e if isinstance(e, z3.ExprRef) else z3.IntVal(int(e))

    def __index__(s):
        return Ctx.cur.choose_int(s.e)
    __int__ = __index__

    def __floor__(s):
        return s

    def __ceil__(s):
        return s

    def __round__(s, n=None):
        return s

    def rint(s):
        return s

    def __float__(s):
        raise Unsupported("float() of symbolic int")

    def __lshift__(s, o):
        return s * (2 ** int(o))

    def __rshift__(s, o):
        return s // (2 ** int(o))

    def __and__(s, o):
        if isinstance(o, (int, np.integer)) and int(o) == 1:
            return s % 2
        raise Unsupported("bitwise and on symbolic int")


def rint_term(x):
    """round-half-even of a z3 real term, as a z3 int term"""
    half = z3.RealVal(1) / 2
    f = z3.ToInt(x + half)
    tie = z3.ToReal(f) == x + half
    return z3.If(z3.And(tie, f % 2 != 0), f - 1, f)


def trunc_term(x):
    return z3.If(x >= 0, z3.ToInt(x), -z3.ToInt(-x))


class SReal(SNum):
    def __init__(s, e):
        if not isinstance(e, z3.ExprRef):
            e = rv(e)
        s.e = _toreal(e)

    def __floor__(s):
        return SInt(z3.ToInt(s.e))

    def __ceil__(s):
        return SInt(-z3.ToInt(-s.e))

    def __trunc__(s):
        return SInt(trunc_term(s.e))

    def __int__(s):
        return Ctx.cur.choose_int(trunc_term(s.e))

    def __round__(s, n=None):
        if n not in (None, 0):
            raise Unsupported("round to digits")
        return SInt(rint_term(s.e))

    def rint(s):
        return SReal(z3.ToReal(rint_term(s.e)))

    def __float__(s):
        raise Unsupported("float() of symbolic real")

    def is_integer(s):
        return SBool(z3.IsInt(s.e))

    # trigonometric functions: uninterpreted (their argument is what the checks look at)
    def sin(s):
        return SReal(UF_SIN(s.e))

    def cos(s):
        return SReal(UF_COS(s.e))

    def tan(s):
        return SReal(UF_TAN(s.e))


UF_SIN = z3.Function("sin_rad", z3.RealSort(), z3.RealSort())
UF_COS = z3.Function("cos_rad", z3.RealSort(), z3.RealSort())
UF_TAN = z3.Function("tan_rad", z3.RealSort(), z3.RealSort())
numbers.Number.register(SInt)
numbers.Number.register(SReal)
numbers.Real.register(SReal)
numbers.Integral.register(SInt)


class SComplex:
    shape = ()
    ndim = 0
    size = 1
    __iter__ = None              # scalars: not iterable (the __getitem__(()) support must not make them sequences)
    dtype = np.dtype(object)

    def __init__(s, re, im):
        s.re = re
        s.im = im   # z3 Reals

    def __getitem__(s, k):
        if k == () or k is Ellipsis:
            return s
        raise IndexError(k)

    @staticmethod
    def of(x):
        if isinstance(x, SComplex):
            return x
        if hasattr(x, "unit"):
            return None
        if isinstance(x, np.ndarray) and x.ndim == 0:
            return SComplex.of(x[()])
        if isinstance(x, (complex, np.complexfloating)):
            return SComplex(_toreal(rv(float(x.real))), _toreal(rv(float(x.imag))))
        b = rv(x)
        if b is None:
            return None
        return SComplex(_toreal(b), z3.RealVal(0))

    def __repr__(s):
        return f"SC({z3.simplify(s.re)}, {z3.simplify(s.im)})"

    def __add__(s, o):
        o = SComplex.of(o)
        if o is None:
            return NotImplemented
        return SComplex(s.re + o.re, s.im + o.im)
    __radd__ = __add__

    def __sub__(s, o):
        o = SComplex.of(o)
        if o is None:
            return NotImplemented
        return SComplex(s.re - o.re, s.im - o.im)

    def __rsub__(s, o):
        o = SComplex.of(o)
        if o is None:
            return NotImplemented
        return SComplex(o.re - s.re, o.im - s.im)

    def __mul__(s, o):
        o = SComplex.of(o)
        if o is None:
            return NotImplemented
        return SComplex(z3.simplify(s.re * o.re - s.im * o.im),
                        z3.simplify(s.re * o.im + s.im * o.re))
    __rmul__ = __mul__

    def __truediv__(s, o):
        b = rv(o)
        if b is not None:
            b = _toreal(b)
            return SComplex(rdiv(s.re, b), rdiv(s.im, b))
        o = SComplex.of(o)
        if o is None:
            return NotImplemented
        d = o.re * o.re + o.im * o.im
        return SComplex((s.re * o.re + s.im * o.im) / d, (s.im * o.re - s.re * o.im) / d)

    def __rtruediv__(s, o):
        o = SComplex.of(o)
        if o is None:
            return NotImplemented
        return o / s

    def __pow__(s, o):
        if isinstance(o, (int, np.integer)) and int(o) >= 1:
            r = s
            for _ in range(int(o) - 1):
                r = r * s
            return r
        raise Unsupported("complex power")

    def __neg__(s):
        return SComplex(-s.re, -s.im)

    def __pos__(s):
        return s

    def conjugate(s):
        return SComplex(s.re, -s.im)
    conj = conjugate

    @property
    def real(s):
        return SReal(s.re)

    @property
    def imag(s):
        return SReal(s.im)

    def exp(s):
        re = z3.simplify(s.re)
        if not (z3.is_rational_value(re) and re.numerator_as_long() == 0):
            raise Unsupported("exp of a complex number with non-zero real part")
        return cis_rad(s.im)

    def __eq__(s, o):
        o = SComplex.of(o)
        if o is None:
            return NotImplemented
        return SBool(z3.And(s.re == o.re, s.im == o.im))

    def __ne__(s, o):
        o = SComplex.of(o)
        if o is None:
            return NotImplemented
        return SBool(z3.Or(s.re != o.re, s.im != o.im))
    __hash__ = None

    def __abs__(s):
        raise Unsupported("abs of symbolic complex")

    def item(s):
        return s


numbers.Number.register(SComplex)
numbers.Complex.register(SComplex)


# ---------------------------------------------------------------------------
# exp(i theta): exact roots of unity where provable, otherwise uninterpreted
COSC = z3.Function("cosc", z3.RealSort(), z3.RealSort())   # argument in cycles, reduced to [0,1)
SINC = z3.Function("sinc", z3.RealSort(), z3.RealSort())
ROOT_ORDERS = (1, 2, 4, 3, 6, 8, 12)


def root_of_unity(N, k):
    """exp(2 pi i k/N) exactly for N | 24 (N in 1,2,3,4,6,8,12)."""
    fr = Fraction(k % N, N)
    tab = {Fraction(0): (1, 0), Fraction(1, 4): (0, 1), Fraction(1, 2): (-1, 0), Fraction(3, 4): (0, -1)}
    if fr in tab:
        a, b = tab[fr]
        return SComplex(z3.RealVal(a), z3.RealVal(b))
    h = z3.RealVal(1) / 2
    R3, R2 = SQRT3, SQRT2
    t3 = {Fraction(1, 6): (h, R3 / 2), Fraction(1, 3): (-h, R3 / 2), Fraction(2, 3): (-h, -R3 / 2),
          Fraction(5, 6): (h, -R3 / 2), Fraction(1, 12): (R3 / 2, h), Fraction(5, 12): (-R3 / 2, h),
          Fraction(7, 12): (-R3 / 2, -h), Fraction(11, 12): (R3 / 2, -h)}
    if fr in t3:
        if Ctx.cur is not None:
            Ctx.cur.use_const("sqrt3")
        return SComplex(*t3[fr])
    t8 = {Fraction(1, 8): (R2 / 2, R2 / 2), Fraction(3, 8): (-R2 / 2, R2 / 2),
          Fraction(5, 8): (-R2 / 2, -R2 / 2), Fraction(7, 8): (R2 / 2, -R2 / 2)}
    if fr in t8:
        if Ctx.cur is not None:
            Ctx.cur.use_const("sqrt2")
        return SComplex(*t8[fr])
    raise Unsupported(f"root of unity {fr}")


def _root_ite(N, a):
    r = a % N
    re = im = None
    for k in reversed(range(N)):
        w = root_of_unity(N, k)
        re = w.re if re is None else z3.If(r == k, w.re, re)
        im = w.im if im is None else z3.If(r == k, w.im, im)
    return SComplex(z3.simplify(re), z3.simplify(im))


def cycles_of_rad(th):
    """th (radians, a z3 real term homogeneous-linear in the symbolic pi) -> cycles term."""
    ctx = Ctx.cur
    th0 = z3.simplify(z3.substitute(th, (PI, z3.RealVal(0))))
    th1 = z3.substitute(th, (PI, z3.RealVal(1)))
    th2 = z3.substitute(th, (PI, z3.RealVal(2)))
    ok0 = z3.is_rational_value(th0) and th0.numerator_as_long() == 0
    if not ok0:
        r, _ = ctx._check(th0 != 0)
        ok0 = r == "unsat"
    if ok0:
        lin = z3.simplify(th2 - 2 * th1)
        if not (z3.is_rational_value(lin) and lin.numerator_as_long() == 0):
            r, _ = ctx._check(lin != 0)
            ok0 = r == "unsat"
    if not ok0:
        raise Unsupported("exp(i*theta): theta is not a multiple of the symbolic pi")
    return z3.simplify(th1 / 2)


_NOCTX = object()


def _has_real_const(e):
    """does the term mention an uninterpreted constant of sort Real?  (then it is not provably k/N)"""
    seen = set()
    stack = [e]
    while stack:
        t = stack.pop()
        if t.get_id() in seen:
            continue
        seen.add(t.get_id())
        if z3.is_const(t) and t.decl().kind() == z3.Z3_OP_UNINTERPRETED and t.sort() == z3.RealSort():
            return True
        stack.extend(t.children())
    return False


def cis_cycles(phi, ctx=_NOCTX):
    """exp(2 pi i phi) for a z3 real term phi (cycles).  ctx=None: closed-term mode (no solver)."""
    if ctx is _NOCTX:
        ctx = Ctx.cur
    phi = z3.simplify(phi)
    if z3.is_rational_value(phi):
        fr = Fraction(phi.numerator_as_long(), phi.denominator_as_long())
        if 24 % fr.denominator == 0:
            return root_of_unity(fr.denominator, fr.numerator)
    elif ctx is not None and not _has_real_const(phi):
        for N in ROOT_ORDERS:
            a = z3.ToInt(phi * N)
            r, _ = ctx._check(z3.ToReal(a) != phi * N)
            if r == "unsat":
                return _root_ite(N, a)
    red = z3.simplify(phi - z3.ToReal(z3.ToInt(phi)))
    if ctx is not None:
        c, s = COSC(red), SINC(red)
        ctx.axiom(c * c + s * s == 1)
        if "cis" not in ctx.used_consts:
            ctx.used_consts.add("cis")
            for fr, (cv, sv) in ((Fraction(0), (1, 0)), (Fraction(1, 4), (0, 1)), (Fraction(1, 2), (-1, 0)),
                                 (Fraction(3, 4), (0, -1))):
                ctx.axiom(COSC(realval(fr)) == cv)
                ctx.axiom(SINC(realval(fr)) == sv)
    return SComplex(COSC(red), SINC(red))


def cis_rad(th):
    return cis_cycles(cycles_of_rad(_toreal(th)))


# ---------------------------------------------------------------------------
# evaluation of z3 terms under concrete (Fraction) values -- used for witness validation and replay
def evalz(e, env, ufs=None):
    """Evaluate z3 term e.  env: const name -> Fraction/int/bool; ufs: name -> python callable."""
    ufs = ufs or {}
    cache = {}

    def ev(t):
        k = t.get_id()
        if k in cache:
            return cache[k]
        r = ev1(t)
        cache[k] = r
        return r

    def ev1(t):
        if z3.is_int_value(t):
            return t.as_long()
        if z3.is_rational_value(t):
            return Fraction(t.numerator_as_long(), t.denominator_as_long())
        if z3.is_algebraic_value(t):
            a = t.approx(30)
            return Fraction(a.numerator_as_long(), a.denominator_as_long())
        if z3.is_true(t):
            return True
        if z3.is_false(t):
            return False
        d = t.decl()
        kind = d.kind()
        ch = t.children()
        if kind == z3.Z3_OP_UNINTERPRETED:
            name = d.name()
            if not ch:
                if name in env:
                    return env[name]
                if name in CONST_VALUES:
                    return CONST_VALUES[name]
                raise KeyError(name)
            args = [ev(c) for c in ch]
            if name == "cosc":
                return Fraction(math.cos(2 * math.pi * float(args[0])))
            if name == "sinc":
                return Fraction(math.sin(2 * math.pi * float(args[0])))
            if name in ("sin_rad", "cos_rad", "tan_rad"):
                return Fraction(getattr(math, name[:3])(float(args[0])))
            if name in ufs:
                return ufs[name](*args)
            raise KeyError(name)
        if kind == z3.Z3_OP_ITE:
            return ev(ch[1]) if ev(ch[0]) else ev(ch[2])
        if kind == z3.Z3_OP_AND:
            return all(ev(c) for c in ch)
        if kind == z3.Z3_OP_OR:
            return any(ev(c) for c in ch)
        if kind == z3.Z3_OP_NOT:
            return not ev(ch[0])
        if kind == z3.Z3_OP_XOR:
            return bool(ev(ch[0])) != bool(ev(ch[1]))
        if kind == z3.Z3_OP_IMPLIES:
            return (not ev(ch[0])) or ev(ch[1])
        a = [ev(c) for c in ch]
        if kind == z3.Z3_OP_ADD:
            return sum(a[1:], a[0])
        if kind == z3.Z3_OP_SUB:
            r = a[0]
            for x in a[1:]:
                r = r - x
            return r
        if kind == z3.Z3_OP_UMINUS:
            return -a[0]
        if kind == z3.Z3_OP_MUL:
            r = a[0]
            for x in a[1:]:
                r = r * x
            return r
        if kind == z3.Z3_OP_DIV:
            if a[1] == 0:
                raise ZeroDivisionError
            return Fraction(a[0]) / Fraction(a[1])
        if kind == z3.Z3_OP_IDIV:
            if a[1] == 0:
                raise ZeroDivisionError
            # z3 div is Euclidean: a = b*q + r with 0 <= r < |b|
            return (a[0] - (a[0] % abs(a[1]))) // a[1]
        if kind == z3.Z3_OP_MOD:
            if a[1] == 0:
                raise ZeroDivisionError
            return a[0] % abs(a[1])
        if kind == z3.Z3_OP_TO_REAL:
            return Fraction(a[0])
        if kind == z3.Z3_OP_TO_INT:
            return math.floor(a[0])
        if kind == z3.Z3_OP_IS_INT:
            return Fraction(a[0]).denominator == 1
        if kind == z3.Z3_OP_LE:
            return a[0] <= a[1]
        if kind == z3.Z3_OP_LT:
            return a[0] < a[1]
        if kind == z3.Z3_OP_GE:
            return a[0] >= a[1]
        if kind == z3.Z3_OP_GT:
            return a[0] > a[1]
        if kind == z3.Z3_OP_EQ:
            return a[0] == a[1]
        if kind == z3.Z3_OP_DISTINCT:
            return len(set(a)) == len(a)
        if kind == z3.Z3_OP_POWER:
            return Fraction(a[0]) ** int(a[1])
        raise Unsupported(f"evalz: operator {d.name()}")

    return ev(e)
