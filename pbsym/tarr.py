"""T-arrays (symbolic time length), the slice stand-in and the exact-real Time stub."""
import builtins

import astropy.units as u
import numpy as np
import z3

from .core import Ctx, SBool, SInt, SNum, SReal, SComplex, Unsupported, rv, _toreal, wrap


def zint(x):
    if isinstance(x, SInt):
        return x.e
    if isinstance(x, z3.ExprRef):
        return x
    if isinstance(x, SReal):
        raise Unsupported("real used as index")
    return z3.IntVal(int(x))


def has_shadow(x):
    return isinstance(x, (SNum, SComplex, SBool))


class _SliceMeta(type):
    def __instancecheck__(cls, obj):
        return isinstance(obj, builtins.slice) or type(obj) is SymSlice


class SymSlice(metaclass=_SliceMeta):
    """Stand-in for builtin slice whose .indices() is the SMT model of PySlice_AdjustIndices."""

    def __new__(cls, *a, force=False):
        # with concrete arguments the stand-in is the builtin slice (usable as a NumPy index)
        if not force and not any(has_shadow(v) for v in a):
            return builtins.slice(*a)
        if not force and len(a) == 3 and Ctx.cur is not None:
            # slice(*index.indices(n)) with a small concrete n: the normalised bounds range over 0..n only,
            # so they are concretised (bounded fork) and the result is again a builtin slice
            ctx = Ctx.cur
            small = True
            for v in a:
                if isinstance(v, SInt):
                    r, _ = ctx._check(z3.Or(v.e > 32, v.e < -32))
                    if r != "unsat":
                        small = False
                        break
            if small:
                return builtins.slice(*[v.__index__() if isinstance(v, SInt) else v for v in a])
        return object.__new__(cls)

    def __init__(s, *a, force=False):
        if len(a) == 1:
            a = (None, a[0], None)
        elif len(a) == 2:
            a = (a[0], a[1], None)
        s.start, s.stop, s.step = a

    @staticmethod
    def of(x):
        if type(x) is SymSlice:
            return x
        return SymSlice(x.start, x.stop, x.step, force=True)

    def indices(s, n):
        n = zint(n)
        step = 1 if s.step is None else s.step
        if isinstance(step, SInt):
            step = step.__index__()          # bounded fork on the step
        step = int(step)
        if step == 0:
            raise ValueError("slice step cannot be zero")
        lower, upper = (z3.IntVal(0), n) if step > 0 else (z3.IntVal(-1), n - 1)

        def adj(v, default):
            if v is None:
                return default
            v = zint(v)
            return z3.If(v < 0, z3.If(v + n < lower, lower, v + n), z3.If(v > upper, upper, v))
        start = adj(s.start, lower if step > 0 else upper)
        stop = adj(s.stop, upper if step > 0 else lower)
        return SInt(z3.simplify(start)), SInt(z3.simplify(stop)), step

    def __repr__(s):
        return f"SymSlice({s.start}, {s.stop}, {s.step})"


def slice_needs_sym(x):
    return isinstance(x, builtins.slice) and any(has_shadow(v) for v in (x.start, x.stop, x.step))


def getitem_adapter(orig):
    """Wrap a Signal.__getitem__: builtin slices carrying shadow ints become SymSlice first."""
    def __getitem__(self, index):
        tdata = isinstance(getattr(self, "_data", None), TArr)
        if isinstance(index, tuple):
            index = tuple(SymSlice.of(i) if (slice_needs_sym(i) or (tdata and k == 0 and isinstance(i, builtins.slice))) else i
                          for k, i in enumerate(index))
        elif slice_needs_sym(index) or (tdata and isinstance(index, builtins.slice)):
            index = SymSlice.of(index)
        return orig(self, index)
    __getitem__._pbsym_orig = orig
    return __getitem__


class TArr:
    """Array with a symbolic leading (time) length and concrete sample axes.

    cols: object ndarray (sample shape) of closures  t (z3 Int term) -> element (shadow value or token)
    """
    __array_priority__ = 1000

    def __init__(s, length, cols, dtype):
        s.length = length if isinstance(length, SInt) else SInt(zint(length))
        if not isinstance(cols, np.ndarray):
            c = np.empty((), dtype=object)
            c[()] = cols
            cols = c
        s.cols = cols
        s.dtype = np.dtype(dtype)

    @property
    def shape(s):
        return (s.length,) + s.cols.shape

    @property
    def ndim(s):
        return 1 + s.cols.ndim

    def __len__(s):
        raise Unsupported("builtin len() of a T-array (inject symlen)")

    def astype(s, dt, casting="unsafe", copy=True, **k):
        if not np.can_cast(s.dtype, dt, casting=casting):
            raise TypeError(f"Cannot cast array data from {s.dtype!r} to {np.dtype(dt)!r} according to the rule '{casting}'")
        return TArr(s.length, s.cols, dt)

    def _map(s, fn, dtype=None):
        nc = np.empty(s.cols.shape, dtype=object)
        for ix in np.ndindex(*s.cols.shape):
            nc[ix] = (lambda f: (lambda t: fn(f(t))))(s.cols[ix])
        return TArr(s.length, nc, dtype or s.dtype)

    def conj(s):
        return s._map(lambda e: ("conj", e) if isinstance(e, tuple) else e.conjugate())
    conjugate = conj

    def transpose(s, *axes):
        if len(axes) == 1 and isinstance(axes[0], (tuple, list)):
            axes = tuple(axes[0])
        if axes[0] != 0:
            raise Unsupported("transpose moving the time axis of a T-array")
        return TArr(s.length, s.cols.transpose(*[a - 1 for a in axes[1:]]), s.dtype)

    def __getitem__(s, index):
        if not isinstance(index, tuple):
            index = (index,)
        t, rest = index[0], index[1:]
        if rest:
            if any(type(r) is SymSlice or slice_needs_sym(r) for r in rest):
                # sample-axis slices with symbolic raw bounds: the normalised bounds range over 0..dim (bounded fork)
                new = []
                for ax, r in enumerate(rest):
                    if type(r) is SymSlice or slice_needs_sym(r):
                        st, sp, stp = SymSlice.of(r).indices(s.cols.shape[ax])
                        r = builtins.slice(st.__index__(), sp.__index__(), stp)
                    new.append(r)
                rest = tuple(new)
            cols = s.cols[rest]
        else:
            cols = s.cols
        if not isinstance(cols, np.ndarray):
            c = np.empty((), dtype=object)
            c[()] = cols
            cols = c
        if not isinstance(t, SymSlice):      # (metaclass: builtin slices are instances too)
            raise Unsupported(f"T-array time index {t!r}")
        start, stop, step = SymSlice.of(t).indices(s.length)
        if step <= 0:
            raise Unsupported("negative step on T-array")
        n = (stop.e - start.e + (step - 1)) / step      # z3 int div, step concrete > 0
        newlen = SInt(z3.simplify(z3.If(stop.e > start.e, n, 0)))
        newcols = np.empty(cols.shape, dtype=object)
        for ix in np.ndindex(*cols.shape):
            newcols[ix] = (lambda f: (lambda k: f(start.e + k * step)))(cols[ix])
        return TArr(newlen, newcols, s.dtype)

    def __setitem__(s, index, value):
        """z[:, mask] = other  (assignment over the whole time axis on selected sample positions)"""
        if not (isinstance(index, tuple) and len(index) >= 2 and isinstance(index[0], builtins.slice)
                and index[0] == builtins.slice(None) and isinstance(value, TArr)):
            raise Unsupported(f"T-array setitem {index!r}")
        new = s.cols.copy()
        new[index[1:] if len(index) > 2 else index[1]] = value.cols
        s.cols = new

    def __array_function__(self, func, types, args, kwargs):
        if func is np.stack:
            return _tarr_stack(list(args[0]), **kwargs)
        if func is np.concatenate:
            return _tarr_concat(list(args[0]), **kwargs)
        if func is np.flip:
            axis = kwargs.get("axis", args[1] if len(args) > 1 else None)
            if axis is None:
                raise Unsupported("flip over all axes")
            axis = axis % self.ndim
            if axis == 0:
                raise Unsupported("flip of the time axis")
            return TArr(self.length, np.flip(self.cols, axis=axis - 1), self.dtype)
        if func is np.take:
            a, idx = args[0], args[1]
            axis = kwargs.get("axis", args[2] if len(args) > 2 else None)
            axis = axis % self.ndim
            if axis == 0:
                raise Unsupported("take on the time axis")
            return TArr(self.length, np.take(self.cols, idx, axis=axis - 1), self.dtype)
        return NotImplemented

    __array_ufunc__ = None


# lengths of the arrays given to the most recent np.stack (stack requires equal lengths; checked by harness)
STACK_LENS = []


def _tarr_stack(arrs, axis=0):
    if axis < 1:
        raise Unsupported("stack along time")
    L = arrs[0].length
    STACK_LENS.append([a.length for a in arrs])
    cols = np.stack([a.cols for a in arrs], axis=axis - 1)
    return TArr(L, cols, arrs[0].dtype)


def _ite_elem(cond, a, b):
    """if cond then a else b for shadow elements"""
    if isinstance(a, tuple) or isinstance(b, tuple):
        raise Unsupported("ite over tokens")
    if isinstance(a, SComplex) or isinstance(b, SComplex):
        a, b = SComplex.of(a), SComplex.of(b)
        return SComplex(z3.If(cond, a.re, b.re), z3.If(cond, a.im, b.im))
    ta, tb = rv(a), rv(b)
    if ta.sort() != tb.sort():
        ta, tb = _toreal(ta), _toreal(tb)
    return wrap(z3.If(cond, ta, tb))


def _tarr_concat(arrs, axis=0):
    if axis >= 1:
        for a in arrs[1:]:
            STACK_LENS.append([arrs[0].length, a.length])
        return TArr(arrs[0].length, np.concatenate([a.cols for a in arrs], axis=axis - 1), arrs[0].dtype)
    shape = arrs[0].cols.shape
    for a in arrs:
        if a.cols.shape != shape:
            raise ValueError("all the input array dimensions except for the concatenation axis must match exactly")
    offs = [z3.IntVal(0)]
    for a in arrs:
        offs.append(offs[-1] + zint(a.length))
    newcols = np.empty(shape, dtype=object)

    def mk(ix):
        def f(t):
            res = None
            for a, o in reversed(list(zip(arrs, offs))):
                e = a.cols[ix](t - o)
                res = e if res is None else _ite_elem(t < o + zint(a.length), e, res)
            return res
        return f
    for ix in np.ndindex(*shape):
        newcols[ix] = mk(ix)
    dt = np.result_type(*[a.dtype for a in arrs])
    return TArr(SInt(z3.simplify(offs[-1])), newcols, dt)


def symlen(x):
    """Stand-in for builtin len inside pulsarbat modules."""
    if isinstance(x, TArr):
        return x.length
    d = getattr(x, "_data", None)
    if isinstance(d, TArr):
        return d.length
    sh = getattr(x, "_shape", None)          # BaseReader
    if isinstance(sh, tuple) and sh and isinstance(sh[0], SInt):
        return sh[0]
    sl = getattr(type(x), "symbolic_len", None)          # shape-only stand-ins
    if sl is not None:
        return sl(x)
    return builtins.len(x)


def uf_cols(ctx, name, sample_shape, kind="real"):
    """Columns whose element at time t is an uninterpreted function of t (arbitrary sample values)."""
    cols = np.empty(sample_shape, dtype=object)
    for ix in np.ndindex(*sample_shape):
        tag = "_".join(map(str, ix)) or "s"
        if kind == "real":
            f = ctx.uf(f"{name}_{tag}", z3.IntSort(), z3.RealSort())
            cols[ix] = (lambda f: (lambda t: SReal(f(t))))(f)
        else:
            fr = ctx.uf(f"{name}r_{tag}", z3.IntSort(), z3.RealSort())
            fi = ctx.uf(f"{name}i_{tag}", z3.IntSort(), z3.RealSort())
            cols[ix] = (lambda fr, fi: (lambda t: SComplex(fr(t), fi(t))))(fr, fi)
    return cols


# ---------------------------------------------------------------------------
def _qval(q, unit):
    v = q.to_value(unit)
    if isinstance(v, np.ndarray):
        if v.ndim != 0:
            raise Unsupported("array Quantity added to a scalar time")
        v = v[()]
    return v


def oq(val, unit):
    """object-dtype Quantity holding a shadow scalar"""
    return u.Quantity(np.array(val, dtype=object), unit, dtype=object)


class SymTime:
    """Exact-real model of a scalar astropy Time: seconds since an arbitrary epoch."""
    isscalar = True
    shape = ()
    ndim = 0
    EPS = None          # z3 term: default isclose tolerance in seconds (set per path by the harness)

    def __init__(s, val, format=None, precision=None, **k):
        if isinstance(val, SymTime):
            s.sec = val.sec
        elif isinstance(val, (SReal, SInt)):
            s.sec = SReal(val.e)
        elif isinstance(val, z3.ExprRef):
            s.sec = SReal(val)
        else:
            # concrete input: whatever the real astropy Time accepts (with the same keyword arguments)
            from astropy.time import Time as _RealTime
            from fractions import Fraction as _F
            from .core import realval as _rv
            kw = dict(k)
            if format is not None:
                kw["format"] = format
            if precision is not None:
                kw["precision"] = precision
            t = _RealTime(val, **kw)
            if not t.isscalar:
                s.isscalar = False
                s.shape = t.shape
                s.sec = None
                return
            ep = _RealTime("2021-03-04T05:06:07", format="isot", scale="utc", precision=9)
            d = (_F(float(t.jd1)) - _F(float(ep.jd1))) + (_F(float(t.jd2)) - _F(float(ep.jd2)))
            s.sec = SReal(_rv(d * 86400))

    @property
    def isot(s):
        return f"<SymTime {s.sec}>"

    def __add__(s, q):
        if not isinstance(q, u.Quantity):
            return NotImplemented
        return SymTime(s.sec + _qval(q, u.s))
    __radd__ = __add__

    def __sub__(s, o):
        if isinstance(o, SymTime):
            return oq(s.sec - o.sec, u.s)
        if not isinstance(o, u.Quantity):
            return NotImplemented
        return SymTime(s.sec - _qval(o, u.s))

    def _cmp(op):
        def f(s, o):
            if not isinstance(o, SymTime):
                return NotImplemented
            return op(s.sec, o.sec)
        return f
    __lt__ = _cmp(lambda a, b: a < b)
    __le__ = _cmp(lambda a, b: a <= b)
    __gt__ = _cmp(lambda a, b: a > b)
    __ge__ = _cmp(lambda a, b: a >= b)
    __eq__ = _cmp(lambda a, b: a == b)
    __ne__ = _cmp(lambda a, b: a != b)
    __hash__ = None

    def isclose(s, other, atol=None):
        if atol is None:
            if SymTime.EPS is None:
                raise Unsupported("SymTime.isclose without a tolerance model")
            tol = SymTime.EPS
        else:
            tol = _toreal(rv(_qval(atol, u.s)))
        d = s.sec.e - other.sec.e
        return SBool(z3.And(d <= tol, -d <= tol))

    def to(s, *a, **k):
        raise Unsupported("SymTime.to")

    def copy(s):
        return SymTime(s)

    def __repr__(s):
        return f"SymTime({s.sec})"
