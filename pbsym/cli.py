"""./check <id> quick|thorough [--units substr] [--jobs N] | ./check <id> --replay <file>"""
import argparse
import concurrent.futures as cf
import hashlib
import importlib
import json
import multiprocessing as mp
import os
import sys
sys.set_int_max_str_digits(0)
import time

VERIF = os.path.dirname(os.path.dirname(os.path.abspath(__file__)))
sys.path.insert(0, VERIF)

from pbsym.runner import jsonable, prepare_units, source_hashes, unjson_values, worker  # noqa: E402


def load_known(pid):
    p = os.path.join(VERIF, "known_findings.json")
    if not os.path.exists(p):
        return []
    with open(p) as f:
        data = json.load(f)
    return [e for e in data.get("findings", []) if e.get("property") == pid]


def match_known(known, sig):
    for e in known:
        if e.get("status") == "open" and e.get("signature") == sig:
            return e
    return None


def _die_with_parent():
    """worker initializer: have the kernel kill this worker when the checking process goes away (a killed or timed-out check must
    not leave solver processes behind)"""
    try:
        import ctypes
        import signal
        ctypes.CDLL("libc.so.6", use_errno=True).prctl(1, signal.SIGKILL)          # PR_SET_PDEATHSIG
    except Exception:
        pass


def _worker_loop(wid, task_q, res_q):
    """pool worker: takes (property, tier, unit name) tasks until the queue is empty"""
    import queue as _queue
    _die_with_parent()
    while True:
        try:
            task = task_q.get(timeout=0.5)
        except _queue.Empty:
            return
        res_q.put(("start", wid, task[2]))
        res_q.put(("done", wid, task[2], worker(task)))


def main(argv=None):
    ap = argparse.ArgumentParser()
    ap.add_argument("pid")
    ap.add_argument("tier", nargs="?", default=os.environ.get("VERIF_TIER", "quick"))
    ap.add_argument("--units", default=None)
    ap.add_argument("--jobs", type=int, default=int(os.environ.get("VERIF_JOBS", "16")))
    ap.add_argument("--replay", default=None)
    ap.add_argument("--list", action="store_true")
    ap.add_argument("--no-evidence", action="store_true")
    a = ap.parse_args(argv)
    pid = a.pid
    seed = int(os.environ.get("VERIF_SEED", "0") or 0)
    mod = importlib.import_module(f"harness.{pid}")

    if a.replay:
        return do_replay(mod, pid, a.replay)

    tier = a.tier
    units = prepare_units(mod, tier)
    if a.units:
        units = [u for u in units if a.units in u.name]
    if a.list:
        for u in units:
            print(u.name, u.bounds)
        return 0
    names = [u.name for u in units]
    assert len(set(names)) == len(names), "duplicate unit names"
    order = list(range(len(units)))
    if seed:
        import random
        random.Random(seed).shuffle(order)
    t0 = time.time()
    results = {}
    ctx = mp.get_context("spawn")
    jobs = max(1, min(a.jobs, len(units)))
    known0 = load_known(pid)
    stop_at = None

    def skipped(name):
        return {"unit": name, "verdict": "skipped", "violations": [], "unconfirmed": [], "wall_s": 0,
                "reason": "not run to completion: a reproduced violation had already decided the run"}

    # Own process pool (not concurrent.futures): the parent knows which unit each worker is running and since when, so that a unit
    # whose solver call never returns (z3 does not always honour its timeout) is killed at a hard limit and reported inconclusive,
    # instead of hanging the check.
    task_q, res_q = ctx.Queue(), ctx.Queue()
    by_name = {u.name: u for u in units}
    todo = [units[i].name for i in order]
    for nm in todo:
        task_q.put((pid, tier, nm))
    workers = {}             # wid -> [process, unit name or None, start time]

    def spawn(wid):
        p = ctx.Process(target=_worker_loop, args=(wid, task_q, res_q), daemon=True)
        p.start()
        workers[wid] = [p, None, None]

    def report(nm, r):
        nonlocal stop_at
        results[nm] = r
        if stop_at is None and any(match_known(known0, v["signature"]) is None for v in r.get("violations", [])):
            # a new reproduced violation decides the run: short grace period for running units, drop the rest
            stop_at = time.time() + (20 if tier == "quick" else 120)
        if r["verdict"] == "skipped":
            return
        extra = f" reason={r.get('reason', '')[:300]}" if r["verdict"] != "ok" else ""
        print(f"[{pid}] unit {nm}: {r['verdict']} paths={r.get('paths', 0)} queries={r.get('queries', 0)} "
              f"solver={r.get('solver_s', 0):.1f}s maxq={r.get('max_query_s', 0)}s wall={r.get('wall_s', 0)}s witness_ok={r.get('witness_ok', 0)}{extra}",
              flush=True)
        if r.get("trace") and os.environ.get("VERIF_DEBUG"):
            print(r["trace"])

    def dead(nm, why):
        return {"unit": nm, "verdict": "inconclusive", "reason": why, "violations": [], "unconfirmed": [], "wall_s": 0}

    import queue as _queue
    for wid in range(jobs):
        spawn(wid)
    try:
        while len(results) < len(todo):
            try:
                msg = res_q.get(timeout=1.0)
            except _queue.Empty:
                msg = None
            if msg is not None:
                kind, wid, nm = msg[0], msg[1], msg[2]
                if kind == "start":
                    if wid in workers:
                        workers[wid][1], workers[wid][2] = nm, time.time()
                elif kind == "done":
                    if wid in workers and workers[wid][1] == nm:
                        workers[wid][1] = None
                    if nm not in results:
                        report(nm, msg[3])
            now = time.time()
            for wid, (p, nm, ts) in list(workers.items()):
                hard = None if nm is None else by_name[nm].budget_s + max(180, 0.25 * by_name[nm].budget_s)
                if nm is not None and now - ts > hard:
                    p.terminate()
                    p.join(5)
                    if nm not in results:
                        report(nm, dead(nm, f"hard time limit: the unit was still running {int(now - ts)} s after it started (budget "
                                            f"{by_name[nm].budget_s} s) - a solver call did not return; worker killed"))
                    spawn(wid)
                elif not p.is_alive():
                    if nm is not None and nm not in results:
                        report(nm, dead(nm, f"worker process died (exit code {p.exitcode})"))
                    if len(results) < len(todo):
                        spawn(wid)
                    else:
                        workers.pop(wid)
            if stop_at is not None and time.time() > stop_at:
                for nm in todo:
                    results.setdefault(nm, skipped(nm))
    finally:
        for wid, (p, nm, ts) in list(workers.items()):
            try:
                p.terminate()
            except Exception:
                pass
        for wid, (p, nm, ts) in list(workers.items()):
            try:
                p.join(2)
            except Exception:
                pass
    for u in units:
        results.setdefault(u.name, skipped(u.name))
    wall = time.time() - t0

    known = load_known(pid)
    new_violations = []
    known_hits = {}
    for name in names:
        for v in results[name].get("violations", []):
            e = match_known(known, v["signature"])
            if e is not None:
                known_hits.setdefault(e["id"], (e, []))[1].append(v)
            else:
                new_violations.append(v)
    inconclusive = [r for r in results.values() if r["verdict"] in ("inconclusive", "skipped") and
                    (r["verdict"] == "inconclusive" or not new_violations)]

    for kid, (e, vs) in sorted(known_hits.items()):
        print(f"KNOWN-FINDING: property={pid} {e['id']}: {e['text']} (signature {e['signature']}; {len(vs)} counterexample(s) this run)")
    replay_paths = []
    if new_violations:
        os.makedirs(os.path.join(VERIF, "replays"), exist_ok=True)
        seen = set()
        for v in new_violations:
            if v["signature"] in seen:
                continue
            seen.add(v["signature"])
            h = hashlib.sha256(json.dumps(v, sort_keys=True).encode()).hexdigest()[:10]
            path = os.path.join(VERIF, "replays", f"{pid}-{h}.json")
            with open(path, "w") as f:
                json.dump({"property": pid, "tier": tier, **v}, f, indent=1)
            replay_paths.append(path)
            print(f"VIOLATION property={pid} replay={path}")
            print(f"  unit={v['unit']} check={v['label']} signature={v['signature']}\n  {v['detail'][:600]}")
    for r in inconclusive:
        print(f"INCONCLUSIVE property={pid} unit={r['unit']}: {r.get('reason', '')[:1500]}")

    if not a.no_evidence and not a.units:
        write_evidence(mod, pid, tier, seed, units, results, wall, new_violations, known_hits, inconclusive)

    tot_paths = sum(r.get("paths", 0) for r in results.values())
    tot_q = sum(r.get("queries", 0) for r in results.values())
    print(f"[{pid}] {tier}: units={len(units)} paths={tot_paths} queries={tot_q} wall={wall:.1f}s "
          f"violations={len(new_violations)} known={len(known_hits)} inconclusive={len(inconclusive)}")
    if new_violations:
        return 1
    if inconclusive:
        return 2
    return 0


def write_evidence(mod, pid, tier, seed, units, results, wall, new_violations, known_hits, inconclusive):
    rs = [results[u.name] for u in units]
    fnames = sorted({f for u in units for f in u.functions})
    q = {k: sum(r.get("q_" + k, 0) for r in rs) for k in ("sat", "unsat", "unknown")}
    samples = []
    for r in rs:
        for s in r.get("samples", [])[:1]:
            samples.append(s)
    samples = samples[:12] or [{"note": "no path produced a sample"}]
    meta = getattr(mod, "META", {})
    cov = {
        "states": max(1, sum(r.get("paths", 0) - r.get("aborted", 0) for r in rs)),
        "transitions": sum(r.get("branches", 0) + r.get("checks", 0) for r in rs),
        "traces_validated_against_impl": sum(r.get("witness_ok", 0) for r in rs),
        "evaluations": sum(r.get("queries", 0) for r in rs),
        "distinct_nontrivial": sum(r.get("distinct_nontrivial", 0) for r in rs),
        "transitions_rule": "branch/concretisation decisions taken plus property obligations checked along the paths",
        "rule": "one case = one feasible path (decision sequence) of one unit of the real code executed on symbolic "
                "values; non-trivial = its path condition is not 'true' and at least one of its property queries "
                "had to be discharged by the solver (was not closed by term simplification); distinct = distinct "
                "(unit, decision sequence)",
        "samples": samples,
        "exhaustive": all(r["verdict"] in ("ok", "violation") for r in rs) and not inconclusive,
        "units": [{k: r.get(k) for k in ("unit", "bounds", "verdict", "reason", "paths", "aborted", "branches", "queries",
                                         "q_sat", "q_unsat", "q_unknown", "solver_s", "max_query_s", "wall_s", "reached_paths",
                                         "checks", "witness_ok", "witness_skipped")} for r in rs],
        "functions_encoded": source_hashes(fnames),
        "queries_by_verdict": q,
        "solver_time_s": round(sum(r.get("solver_s", 0) for r in rs), 2),
        "solver": "z3 " + __import__("z3").get_version_string(),
        "stubs": meta.get("stubs", []),
        "bounds": meta.get("bounds", {}),
        "outside_claim": meta.get("outside", []),
        "known_findings_hit": sorted(known_hits),
        "inconclusive_units": [r["unit"] for r in inconclusive],
        "extra": {k: r.get("extra") for k, r in results.items() if r.get("extra")},
    }
    ev = {
        "property_id": pid, "tier": tier if tier in ("quick", "thorough") else "quick", "seed": seed,
        "level": "model_checking", "coverage": cov,
        "assumptions": meta.get("assumptions", []) + ["outside the claim: " + x for x in meta.get("outside", [])],
        "wall_s": round(wall, 2), "violations": len(new_violations),
    }
    os.makedirs(os.path.join(VERIF, "evidence"), exist_ok=True)
    with open(os.path.join(VERIF, "evidence", f"{pid}.json"), "w") as f:
        json.dump(jsonable(ev), f, indent=1)


def do_replay(mod, pid, path):
    with open(path) as f:
        v = json.load(f)
    tier = v.get("tier", "thorough")
    units = {u.name: u for u in mod.units("thorough")}
    units.update({u.name: u for u in mod.units(tier)})
    u = units[v["unit"]]
    vals = unjson_values(v["values"])
    variant = vals.pop("_variant", None)
    status, detail = u.replay(v["label"], vals, str(variant)) if variant else u.replay(v["label"], vals)
    print(f"replay property={pid} unit={u.name} check={v['label']}: {status}\n  {detail}")
    return 1 if status.startswith("reproduced") else 0


if __name__ == "__main__":
    _code = main()
    sys.stdout.flush()
    sys.stderr.flush()
    os._exit(_code or 0)      # (skips the executor's exit handlers, which can trip over pipes of terminated workers)
