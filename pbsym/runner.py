"""Unit runner: explores a unit, replays counterexamples, validates witnesses, aggregates evidence."""
import hashlib
import importlib
import inspect
import json
import os
import sys
sys.set_int_max_str_digits(0)
import time
import traceback
from fractions import Fraction

import z3

from . import core as K
from .core import Ctx, HarnessError, PathAbort, Unsupported, explore
from .modes import ConcMode, PreconditionFailed, Raised, SymMode, call_catching, eval_closed
from .stubs import inject, standard_patches
from .tarr import SymTime

VERIF = os.path.dirname(os.path.dirname(os.path.abspath(__file__)))
MAX_REPLAY_MODELS = 4


def jsonable(v):
    if isinstance(v, Fraction):
        return str(v)
    if isinstance(v, dict):
        return {str(k): jsonable(x) for k, x in v.items()}
    if isinstance(v, (list, tuple)):
        return [jsonable(x) for x in v]
    if isinstance(v, (bool, int, float, str)) or v is None:
        return v
    return str(v)


def unjson_values(d):
    out = {}
    for k, v in d.items():
        if k == "_variant":
            out[k] = v
        elif isinstance(v, str):
            out[k] = Fraction(v)
        else:
            out[k] = v
    return out


class Unit:
    """Base class.  Subclasses either implement build/call/spec (dual mode) or override path()."""
    name = "unit"
    bounds = {}
    functions = ()
    budget_s = 600
    max_paths = 5000
    witnesses = 2            # witness validations per unit (paths sampled from the start)
    max_violations = 3       # stop exploring a unit after this many reproduced violations
    query_timeout_ms = 60000
    fork_cap = 64
    small = ()               # extra constraints (callable ctx -> list) to get small witness models

    def patches(self):
        return standard_patches()

    # ---- dual-mode interface
    def build(self, S):
        raise NotImplementedError

    def call(self, args):
        raise NotImplementedError

    def spec(self, S, args, out):
        raise NotImplementedError

    def signature(self, label, values, detail):
        """Stable identification of a violation class for known_findings.json."""
        return f"{self.name}:{label}"

    def witness_constraints(self, ctx):
        return []

    def witness_candidates(self, ctx):
        """optional: complete input assignments at which the encoding is validated in addition to solver models"""
        return []

    def hunt_candidates(self, ctx):
        """optional: input assignments worth trying first when bug hunting (see hunt)"""
        return []

    # ---- symbolic path
    def path(self, ctx, state):
        S = SymMode(ctx)
        SymTime.EPS = None
        gap = None
        with inject(self.patches()):
            args = self.build(S)
            try:
                out = call_catching(self.call, args)
                checks = self.spec(S, args, out)
            except Unsupported as e:
                gap = e
        if gap is not None:
            # the engine cannot follow the code here (an operation the shadow values do not model): no verdict from the
            # solver is possible on this path; fall back to bug hunting on solver models of the assumptions (on the
            # unpatched code), then report the gap (INCONCLUSIVE) unless a real violation was reproduced
            state["sym_out"] = Raised(RuntimeError(f"engine gap: {gap}"))
            if not self.hunt(ctx, "engine-gap", state):
                raise gap
            return None
        state["sym_out"] = out
        for label, bad in checks:
            self.check_and_replay(ctx, label, bad, state)
        if state["witness_left"] > 0:
            state["witness_left"] -= 1
            self.validate_witness(ctx, S, args, out, state)
        return None

    # ---- concrete run on the unpatched code
    variants = (None,)          # concrete-input variants tried when bug hunting (e.g. "negzero")

    def concrete(self, values, variant=None):
        S = ConcMode(values, variant=variant)
        args = self.build(S)
        out = call_catching(self.call, args)
        return S, args, out

    def replay(self, label, values, variant=None):
        """-> (status, detail); status in reproduced | not_reproduced | precondition"""
        try:
            S, args, out = self.concrete(values, variant) if variant is not None else self.concrete(values)
        except PreconditionFailed as e:
            return "precondition", str(e)
        try:
            checks = self.spec(S, args, out)
        except PreconditionFailed as e:
            return "precondition", str(e)
        except K.Unsupported as e:
            if "non-finite" in str(e):
                # the oracle compares with exact finite values: a nan/inf in the real outcome cannot equal any of them
                return "reproduced_other", f"the real code returned a non-finite value where the property prescribes a finite one ({e}); outcome={_short(out)}"
            raise
        failed = []
        for lab, bad in checks:
            try:
                if _truth(bad, S):
                    failed.append(lab)
            except (KeyError, ZeroDivisionError) as e:
                return "not_reproduced", f"oracle could not be evaluated: {e!r}"
        if label in failed:
            return "reproduced", f"oracle check '{label}' fails on the real code; outcome={_short(out)}; all failing checks={failed}"
        if failed:
            return "reproduced_other", f"other oracle checks fail: {failed}; outcome={_short(out)}"
        return "not_reproduced", f"oracle passes; outcome={_short(out)}"

    def check_and_replay(self, ctx, label, bad, state):
        r = ctx.check(label, bad)
        if r == "unsat":
            return
        if r == "unknown":
            # bug hunting when the solver gives up: solver models of the path condition, filtered by exact
            # evaluation of the negated property, replayed on the real code.  Never turns unknown into "holds".
            import random
            rng = random.Random(hash((self.name, label)) & 0xFFFF)
            bad_e = _as_expr(bad)
            for _ in range(6):
                values = ctx.diverse_model(rng)
                if values is None:
                    break
                status, detail = self.replay(label, values)
                if status in ("reproduced", "reproduced_other"):
                    state["violations"].append({
                        "unit": self.name, "label": label, "values": jsonable(values),
                        "detail": detail + " (candidate from a path-condition model after solver 'unknown')",
                        "signature": self.signature(label, values, detail), "decisions": [t[0] for t in ctx.trace]})
                    if len(state["violations"]) >= self.max_violations:
                        raise StopUnit()
                    return
            state["unknown"].append(label)
            return
        tries = 0
        bad_e = _as_expr(bad)
        # prefer a counterexample that is robust under float replay: amplified disequalities, moderate magnitudes
        try:
            nice = [z3.And(c <= 64, c >= -64) for c in ctx.inputs.values() if c.sort() in (z3.IntSort(), z3.RealSort())]
            r3, m3 = ctx._check(amplify(bad_e), *nice)
            if r3 == "sat":
                ctx.checks.append((label, "sat", 0.0, K.model_values(m3, ctx.inputs)))
                bad_e = z3.And(amplify(bad_e), *nice)
        except z3.Z3Exception:
            pass
        while True:
            values = ctx.checks[-1][3]
            tries += 1
            status, detail = self.replay(label, values)
            if status in ("reproduced", "reproduced_other"):
                lab = label
                state["violations"].append({
                    "unit": self.name, "label": lab, "values": jsonable(values), "detail": detail,
                    "signature": self.signature(lab, values, detail), "decisions": [t[0] for t in ctx.trace]})
                if len(state["violations"]) >= self.max_violations:
                    raise StopUnit()
                return
            if tries >= MAX_REPLAY_MODELS:
                if self.diversify(ctx, label, _as_expr(bad), state) or self.hunt(ctx, label, state):
                    return
                so = state.get("sym_out")
                if isinstance(so, Raised):
                    detail += " | symbolic outcome: " + repr(so) + " " + so.tb[-700:]
                state["unconfirmed"].append({"unit": self.name, "label": label, "values": jsonable(values),
                                             "detail": detail, "tries": tries})
                return
            block = z3.Or([(z3.Not(z3.fpEQ(c, _val(v, c))) if z3.is_fp_sort(c.sort()) else c != _val(v, c))
                           for (n, c), v in zip(ctx.inputs.items(), [values[n] for n in ctx.inputs])])
            r2, m = ctx._check(bad_e, block, *state.get("nice", []))
            if r2 != "sat":
                if self.diversify(ctx, label, _as_expr(bad), state) or self.hunt(ctx, label, state):
                    return
                state["unconfirmed"].append({"unit": self.name, "label": label, "values": jsonable(values),
                                             "detail": detail + " (no further model)", "tries": tries})
                return
            ctx.checks.append((label, "sat", 0.0, K.model_values(m, ctx.inputs)))

    def diversify(self, ctx, label, bad_e, state):
        """The solver said sat but its (often degenerate) models did not survive float replay: ask it for models of the
        same query with inputs pinned to small random values."""
        import random
        rng = random.Random(hash((self.name, label, "div")) & 0xFFFF)
        cands = list(self.hunt_candidates(ctx))[:64]
        for i in range(len(cands) + 6):
            if i < len(cands):
                # the unit's own suggestions (partial assignments) for inputs at which an over-approximating stub and the real
                # function it stands for are likely to differ: still a model of the failing query, completed by the solver
                values = ctx.model_of_pc(bad_e, *[ctx.inputs[k] == _val(v, ctx.inputs[k]) for k, v in cands[i].items() if k in ctx.inputs])
                if values is None:
                    continue
            else:
                values = ctx.diverse_model(rng, bad_e)
            if values is None:
                return False
            status, detail = self.replay(label, values)
            if status in ("reproduced", "reproduced_other"):
                state["violations"].append({
                    "unit": self.name, "label": label, "values": jsonable(values), "detail": detail,
                    "signature": self.signature(label, values, detail), "decisions": [t[0] for t in ctx.trace]})
                if len(state["violations"]) >= self.max_violations:
                    raise StopUnit()
                return True
        return False

    def hunt(self, ctx, label, state):
        """Bug hunting when the symbolic run could not follow the code (e.g. it raised inside an operation the
        shadow values do not model): solver models of the path condition, diversified, are replayed on the real
        code against the oracle.  Only a reproduced failure is reported; nothing is ever concluded from a pass."""
        if not isinstance(state.get("sym_out"), Raised):
            return False
        import random
        rng = random.Random(hash((self.name, label, "hunt")) & 0xFFFF)
        cands = list(self.hunt_candidates(ctx))[:64]
        for i in range(len(cands) + 8):
            if i < len(cands):
                values = ctx.model_of_pc(*[ctx.inputs[k] == _val(v, ctx.inputs[k]) for k, v in cands[i].items() if k in ctx.inputs])
                if values is None:
                    continue
            else:
                values = ctx.diverse_model(rng)
            if values is None:
                return False
            for variant in self.variants:
                status, detail = self.replay(label, values, variant)
                if status in ("reproduced", "reproduced_other"):
                    if variant:
                        detail += f" [input variant: {variant}]"
                        values = dict(values, _variant=variant)
                    break
            if status in ("reproduced", "reproduced_other"):
                state["violations"].append({
                    "unit": self.name, "label": label, "values": jsonable(values),
                    "detail": detail + " (found by replaying solver models of the path condition: the symbolic run raised "
                                       + repr(state["sym_out"])[:120] + ")",
                    "signature": self.signature(label, values, detail), "decisions": [t[0] for t in ctx.trace]})
                if len(state["violations"]) >= self.max_violations:
                    raise StopUnit()
                return True
        return False

    def validate_witness(self, ctx, S, args, out, state):
        """Run the unpatched code on a model of this path and compare with the symbolic outcome.
        A mismatch must repeat on a second, different model of the same path to count as an encoding
        failure (a single mismatch can be a float-rounding artifact at a boundary the solver likes to pick)."""
        cmp = getattr(self, "compare", None)
        if cmp is None:
            state["witness_skipped"] += 1
            return
        extra = list(self.witness_constraints(ctx))
        block = []
        failures = []
        cands = [c for c in self.witness_candidates(ctx) if set(c) == set(ctx.inputs)] if not state.get("cands_done") else []
        state["cands_done"] = True
        for attempt in range(4 + len(cands)):
            if attempt < len(cands):
                values = dict(cands[attempt])      # hand-chosen boundary inputs (float-only behaviour the solver cannot steer to)
            else:
                values = ctx.model_of_pc(*(extra + block))
            if values is None:
                break
            block.append(z3.Or([c != _val(values[n], c) for n, c in ctx.inputs.items()]) if ctx.inputs else z3.BoolVal(False))
            try:
                CS, cargs, cout = self.concrete(values)
                # the floats actually used may differ from the model rationals: re-check the path condition
                try:
                    ok = all(bool(K.evalz(p, CS.env, CS.ufs)) for p in ctx.pc)
                except KeyError:
                    # the path condition mentions internal variables (e.g. digits of a rendered number, determined by axioms):
                    # let the solver decide whether the concrete inputs lie on this path
                    ok = _on_path(ctx, CS)
            except (PreconditionFailed, KeyError, ZeroDivisionError):
                ok = False
            if not ok:
                continue
            try:
                with inject(self.patches()):
                    problems = cmp(S, args, out, CS, cargs, cout)
            except (KeyError, ZeroDivisionError) as e:
                problems = [f"comparison failed: {e!r}"]
            if problems is None:
                continue                       # the unit declares this model not comparable (over-approximating stub): next model
            if not problems:
                state["witness_ok"] += 1
                # concrete-only input variants of the same witness (values no solver model can carry: an infinite reference
                # frequency, a negative zero): replayed against the oracle - sampling on the replay side, never a verdict of "holds"
                for variant in self.variants:
                    if variant is None or (self.name, variant) in state.setdefault("variants_done", set()):
                        continue
                    state["variants_done"].add((self.name, variant))
                    status, detail = self.replay("witness", values, variant)
                    if status.startswith("reproduced"):
                        state["violations"].append({
                            "unit": self.name, "label": "witness", "values": jsonable(dict(values, _variant=variant)),
                            "detail": detail + f" [input variant: {variant}]",
                            "signature": self.signature("witness", values, detail), "decisions": [t[0] for t in ctx.trace]})
                        if len(state["violations"]) >= self.max_violations:
                            raise StopUnit()
                if attempt < len(cands):
                    continue                   # a boundary candidate agreed: go on to the next one / to the solver models
                if failures:
                    state.setdefault("witness_retried", []).append(failures[0])
                return
            # the real code and the symbolic run disagree on this input: if the real outcome violates the property's own
            # oracle it is a genuine failing input (e.g. a defect at a C boundary that the stubs step over), not an encoding error
            status, detail = self.replay("witness", values)
            if status.startswith("reproduced"):
                state["violations"].append({
                    "unit": self.name, "label": "witness", "values": jsonable(values),
                    "detail": detail + " (found while validating the encoding: the real code disagrees with the symbolic run: "
                                     + "; ".join(problems[:2])[:200] + ")",
                    "signature": self.signature("witness", values, detail), "decisions": [t[0] for t in ctx.trace]})
                if len(state["violations"]) >= self.max_violations:
                    raise StopUnit()
                return
            failures.append({"unit": self.name, "values": jsonable(values), "problems": problems[:5],
                             "decisions": [t[0] for t in ctx.trace]})
            if len(failures) >= 2:
                break
        if len(failures) >= 2:
            state["witness_failed"].append(failures[0])
        else:
            state["witness_skipped"] += 1


def _on_path(ctx, CS):
    from fractions import Fraction
    fix = []
    for n, c in ctx.inputs.items():
        if n not in CS.env:
            return False
        if c.sort() == z3.RealSort():
            fix.append(c == K.realval(Fraction(CS.env[n])))
        elif c.sort() == z3.IntSort():
            fix.append(c == int(CS.env[n]))
        else:
            return False
    return ctx._check(*fix)[0] == "sat"


def amplify(e, q=Fraction(1, 4)):
    """Strengthen every real disequality atom  a != b  in e to |a-b| >= q (used only to pick a counterexample
    model that survives floating-point replay; the verdict itself comes from the unamplified query)."""
    memo = {}

    def go(t, pos):
        key = (t.get_id(), pos)
        if key in memo:
            return memo[key]
        r = go1(t, pos)
        memo[key] = r
        return r

    def go1(t, pos):
        if not z3.is_bool(t):
            return t
        k = t.decl().kind()
        ch = t.children()
        if k == z3.Z3_OP_NOT:
            return z3.Not(go(ch[0], not pos))
        if k in (z3.Z3_OP_AND, z3.Z3_OP_OR):
            f = z3.And if k == z3.Z3_OP_AND else z3.Or
            return f([go(c, pos) for c in ch])
        if k == z3.Z3_OP_ITE:
            return z3.If(ch[0], go(ch[1], pos), go(ch[2], pos))
        if k == z3.Z3_OP_EQ and not pos and ch[0].sort() == z3.RealSort():
            d = ch[0] - ch[1]
            return z3.Not(z3.Or(d >= K.realval(q), -d >= K.realval(q)))      # under a negation: Not(Not(big)) = big
        if k == z3.Z3_OP_DISTINCT and pos and len(ch) == 2 and ch[0].sort() == z3.RealSort():
            d = ch[0] - ch[1]
            return z3.Or(d >= K.realval(q), -d >= K.realval(q))
        return t
    return go(e, True)


class StopUnit(BaseException):
    pass


def _val(v, c):
    if isinstance(v, bool):
        return z3.BoolVal(v)
    if z3.is_fp_sort(c.sort()):
        return z3.FPVal(float(v), c.sort())
    if c.sort() == z3.IntSort():
        return z3.IntVal(int(v))
    return K.realval(Fraction(v))


def _as_expr(bad):
    from .core import SBool
    import numpy as np
    if isinstance(bad, SBool):
        return bad.e
    if isinstance(bad, (bool, np.bool_)):
        return z3.BoolVal(bool(bad))
    if isinstance(bad, (list, tuple)):
        return z3.Or([_as_expr(b) for b in bad]) if bad else z3.BoolVal(False)
    return bad


def _truth(bad, S):
    e = _as_expr(bad)
    return bool(eval_closed(e, S))


def _short(out):
    if isinstance(out, Raised):
        return repr(out)[:200]
    try:
        return f"{type(out).__name__}" + (f"<shape={tuple(out.shape)}>" if hasattr(out, "shape") else "")
    except Exception:
        return type(out).__name__


def source_hashes(names):
    out = {}
    for q in names:
        mod, _, attr = q.partition(":")
        try:
            obj = importlib.import_module(mod)
            for part in attr.split("."):
                obj = getattr(obj, part)
            obj = getattr(obj, "__wrapped__", obj)
            if isinstance(obj, property):
                obj = obj.fget
            src = inspect.getsource(obj)
            out[q] = hashlib.sha256(src.encode()).hexdigest()[:12]
        except Exception as e:
            out[q] = f"unavailable ({type(e).__name__})"
    return out


def run_unit(unit):
    """Explore one unit.  Returns a picklable result dict."""
    t0 = time.time()
    state = {"violations": [], "unconfirmed": [], "unknown": [], "witness_left": unit.witnesses, "witness_ok": 0,
             "witness_failed": [], "witness_skipped": 0}
    res = {"unit": unit.name, "bounds": jsonable(unit.bounds), "verdict": "ok", "reason": ""}
    Ctx.query_timeout_ms = unit.query_timeout_ms
    Ctx.solver_factory = staticmethod(getattr(unit, "solver_factory", None) or (lambda: z3.Solver()))
    samples = []
    reached = 0
    nchecks = 0
    nontrivial = set()
    try:
        def fn(ctx):
            ctx.fork_cap = unit.fork_cap
            return unit.path(ctx, state)
        done, stats = explore(fn, max_paths=unit.max_paths, deadline=t0 + unit.budget_s, stop=StopUnit)
        for ctx in done:
            if ctx.reached:
                reached += 1
            nchecks += len(ctx.checks)
            dec = tuple(t[0] for t in ctx.trace)
            if ctx.pc and any(c[1] != "unsat" or c[2] > 0 for c in ctx.checks):
                nontrivial.add(dec)
            if len(samples) < 3 and ctx.checks:
                samples.append({"unit": unit.name, "decisions": jsonable(list(dec)),
                                "path_condition": [str(z3.simplify(p))[:160] for p in ctx.pc[:6]],
                                "checks": [(c[0], c[1], round(c[2], 3)) for c in ctx.checks[:6]]})
        res.update(stats)
    except Unsupported as e:
        res["verdict"] = "inconclusive"
        res["reason"] = f"unsupported: {e}"
        res["trace"] = traceback.format_exc()[-1500:]
    except HarnessError as e:
        res["verdict"] = "inconclusive"
        res["reason"] = f"harness error: {e}"
    except Exception as e:
        res["verdict"] = "inconclusive"
        res["reason"] = f"harness exception: {type(e).__name__}: {e}"
        res["trace"] = traceback.format_exc()[-2500:]
    finally:
        Ctx.cur = None
    res["reached_paths"] = reached
    res["checks"] = nchecks
    res["distinct_nontrivial"] = len(nontrivial)
    res["samples"] = samples
    res["violations"] = state["violations"]
    res["unconfirmed"] = state["unconfirmed"]
    res["unknown"] = state["unknown"]
    res["witness_ok"] = state["witness_ok"]
    res["witness_failed"] = state["witness_failed"]
    res["witness_skipped"] = state["witness_skipped"]
    if state.get("extra"):
        res["extra"] = state["extra"]
    if state.get("witness_retried"):
        res["witness_retried"] = len(state["witness_retried"])
    if res["verdict"] == "ok":
        if state["violations"]:
            res["verdict"] = "violation"
        elif state["unknown"]:
            res["verdict"] = "inconclusive"
            res["reason"] = f"solver unknown on: {sorted(set(state['unknown']))[:5]}"
        elif state["unconfirmed"]:
            res["verdict"] = "inconclusive"
            res["reason"] = "counterexample candidates did not reproduce on the real code: " + \
                str([(x['label'], x['detail'][:1200]) for x in state["unconfirmed"][:3]])
        elif state["witness_failed"]:
            res["verdict"] = "inconclusive"
            res["reason"] = f"witness validation failed (encoding disagrees with real code): {state['witness_failed'][:2]}"
        elif reached == 0:
            res["verdict"] = "inconclusive"
            res["reason"] = "vacuous: no feasible path reached a property check"
    elif state["violations"]:
        res["verdict"] = "violation"
    res["wall_s"] = round(time.time() - t0, 2)
    res["functions"] = list(unit.functions)
    return res


def prepare_units(mod, tier):
    us = mod.units(tier)
    for u in us:
        if tier == "quick" and not getattr(u, "keep_budget", False):
            u.budget_s = min(u.budget_s, 900)
            u.query_timeout_ms = min(u.query_timeout_ms, 30000)
    return us


def worker(task):
    pid, tier, uname = task
    sys.setrecursionlimit(20000)
    try:
        mod = importlib.import_module(f"harness.{pid}")
        units = {u.name: u for u in prepare_units(mod, tier)}
        return run_unit(units[uname])
    except BaseException as e:   # never lose a task silently
        return {"unit": uname, "verdict": "inconclusive", "reason": f"worker crashed: {type(e).__name__}: {e}",
                "trace": traceback.format_exc()[-2500:], "violations": [], "unconfirmed": [], "wall_s": 0}
