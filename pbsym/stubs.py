"""Environment stubs injected into pulsarbat's module namespaces at run time (DESIGN.md 2.4).

Nothing in /repo is modified: Python resolves module globals before builtins, so setting e.g.
``pulsarbat.core.len`` shadows the builtin for the code in that module only.  ``inject`` restores
everything on exit, so replays and witness runs execute the unpatched code.
"""
import builtins
import contextlib
import operator as _op

import astropy.units as _u
import numpy as _np
import scipy.fft as _sfft
import z3

from . import core as K
from .core import Ctx, SBool, SComplex, SInt, SNum, SReal, Unsupported, rv, _toreal
from .symnd import SymND, plain, sym_dft, result_dtype
from .tarr import SymSlice, SymTime, TArr, getitem_adapter, has_shadow, symlen, oq

_MISSING = object()


@contextlib.contextmanager
def inject(patches):
    """patches: iterable of (object, attribute name, value)."""
    saved = []
    try:
        for obj, name, val in patches:
            old = obj.__dict__.get(name, _MISSING) if hasattr(obj, "__dict__") else getattr(obj, name, _MISSING)
            saved.append((obj, name, old))
            setattr(obj, name, val)
        yield
    finally:
        for obj, name, old in reversed(saved):
            if old is _MISSING:
                try:
                    delattr(obj, name)
                except AttributeError:
                    pass
            else:
                setattr(obj, name, old)


def any_shadow(x):
    if has_shadow(x):
        return True
    if isinstance(x, (SymND, TArr)):
        return True
    if isinstance(x, _np.ndarray) and x.dtype == object:
        return True
    if isinstance(x, (list, tuple)):
        return any(any_shadow(y) for y in x)
    return False


# ---------------------------------------------------------------------------
class NdIter:
    """np.nditer(arr, flags=['multi_index']) for object arrays (real nditer needs refs_ok)."""

    def __init__(self, arr, flags=()):
        if isinstance(arr, _u.Quantity):
            arr = arr.value
        self.arr = _np.asarray(plain(arr), dtype=object)
        self.multi_index = None

    def __iter__(self):
        for ix in _np.ndindex(*self.arr.shape):
            self.multi_index = ix
            yield self.arr[ix]


class FFTProxy:
    def __getattr__(self, n):
        return getattr(_np.fft, n)

    def fftfreq(self, n, d=1.0):
        if isinstance(n, SInt):
            n = n.__index__()
        sym = any_shadow(d) or (isinstance(d, _u.Quantity) and d.dtype == object) or NPProxy.force_symbolic or Ctx.cur is not None
        if not sym:
            return _np.fft.fftfreq(n, d)
        a = _np.empty(n, dtype=object)
        for k in range(n):
            kk = k if k < (n + 1) // 2 else k - n
            a[k] = SReal(K.realval(kk) / n)
        if isinstance(d, _u.Quantity):
            # numpy: results * (1.0 / (n * d)); here the integer bins k' times 1/(n*d), as a Quantity
            b = _np.empty(n, dtype=object)
            for k in range(n):
                b[k] = SInt(k if k < (n + 1) // 2 else k - n)
            return b * (1 / (n * d))
        a = SymND(a, _np.float64)
        if isinstance(d, (int, float)) and d == 1:
            return a
        return a / d


class NPProxy:
    """Module-global ``np`` stand-in: forwards to NumPy except where object arrays need help."""
    fft = FFTProxy()
    force_symbolic = False      # fftfreq returns exact rationals even for plain d

    def __getattr__(self, n):
        return getattr(_np, n)

    @property
    def pi(self):
        if Ctx.cur is not None:
            Ctx.cur.use_const("pi")
            return SReal(K.PI)
        return _np.pi

    def array(self, x, *a, **k):
        if isinstance(x, SymND):
            return x.copy()
        if isinstance(x, TArr):
            return x
        if has_shadow(x):
            return SymND(_np.array(x, dtype=object))
        r = _np.array(x, *a, **k)
        if r.dtype == object and r.size and any(has_shadow(e) for e in r.ravel()):
            return SymND(r)
        return r

    def asarray(self, x, *a, **k):
        if isinstance(x, (SymND, TArr)):
            return x
        if has_shadow(x):
            return SymND(_np.array(x, dtype=object))
        r = _np.asarray(x, *a, **k)
        if r.dtype == object and r.size and any(has_shadow(e) for e in r.ravel()):
            return SymND(r)
        return r

    def asanyarray(self, x, *a, **k):
        if isinstance(x, (SymND, TArr)):
            return x
        return _np.asanyarray(x, *a, **k)

    def allclose(self, a, b, **k):
        if isinstance(a, _u.Quantity):
            a = a.value
        aa = _np.asarray(plain(a))
        if aa.dtype != object:
            return _np.allclose(aa, b, **k)
        if not (isinstance(b, (int, float)) and b == 0):
            raise Unsupported("allclose against non-zero on symbolic data")
        # |a - 0| <= atol + rtol*0  with atol = 1e-8 (numpy default)
        atol = k.get("atol", 1e-8)
        res = True
        for e in aa.ravel():
            if isinstance(e, SComplex):
                raise Unsupported("allclose on complex symbolic")
            t = _toreal(rv(e))
            if not bool(SBool(z3.And(t <= K.realval(K.frac_of_float(atol)), -t <= K.realval(K.frac_of_float(atol))))):
                res = False
        return res

    def iscomplexobj(self, x):
        if isinstance(x, (SymND, TArr)):
            return x.dtype.kind == "c"
        if isinstance(x, SComplex):
            return True
        if isinstance(x, SNum):
            return False
        if isinstance(x, _u.Quantity) and x.dtype == object:
            return any(isinstance(e, SComplex) for e in _np.asarray(x.value, dtype=object).ravel())
        if isinstance(x, _np.ndarray) and x.dtype == object:
            return any(isinstance(e, (SComplex, complex)) for e in x.ravel())
        return _np.iscomplexobj(x)

    def nditer(self, arr, flags=(), **k):
        a = arr.value if isinstance(arr, _u.Quantity) else arr
        if isinstance(a, _np.ndarray) and plain(a).dtype != object:
            return _np.nditer(a, flags=flags, **k)
        return NdIter(arr, flags)

    def sqrt(self, x, *a, **k):
        if isinstance(x, (int, float)) and x == 2 and Ctx.cur is not None:
            Ctx.cur.use_const("sqrt2")
            return SReal(K.SQRT2)
        if isinstance(x, (int, float)) and x == 3 and Ctx.cur is not None:
            Ctx.cur.use_const("sqrt3")
            return SReal(K.SQRT3)
        return _np.sqrt(x, *a, **k)

    def floor(self, x, *a, **k):
        if isinstance(x, SNum):
            return x.__floor__()
        return _np.floor(x, *a, **k)

    def ceil(self, x, *a, **k):
        if isinstance(x, SNum):
            return x.__ceil__()
        return _np.ceil(x, *a, **k)

    def exp(self, x, *a, **k):
        if isinstance(x, (SNum, SComplex)):
            return x.exp()
        if isinstance(x, _np.ndarray) and not isinstance(x, SymND) and x.dtype == object and not hasattr(x, "unit"):
            x = SymND(x)                 # keep the claimed dtype so that a following .astype() is modelled
        return _np.exp(x, *a, **k)

    def sign(self, x, *a, **k):
        if isinstance(x, SNum):
            return x.sign()
        if isinstance(x, _np.ndarray) and plain(x).dtype == object:
            b = plain(x)
            o = _np.empty(b.shape, dtype=object)
            for ix in _np.ndindex(*b.shape):
                o[ix] = b[ix].sign() if isinstance(b[ix], SNum) else _np.sign(b[ix])
            return SymND(o, _np.float64) if b.ndim else o[()]
        return _np.sign(x, *a, **k)

    def prod(self, x, *a, **k):
        return _np.prod(x, *a, **k)

    def all(self, x, *a, **k):
        if isinstance(x, SBool):
            return x
        if isinstance(x, _np.ndarray) and x.dtype == object:
            r = True
            for e in x.ravel():
                r = r & e if isinstance(e, SBool) or isinstance(r, SBool) else (r and bool(e))
            return r
        return _np.all(x, *a, **k)

    def count_nonzero(self, x, *a, **k):
        if isinstance(x, _u.Quantity):
            x = x.value
        b = _np.asarray(plain(x)) if not isinstance(x, SNum) else _np.array(x, dtype=object)
        if b.dtype == object:
            return sum(1 for e in b.ravel() if bool(e != 0))
        return _np.count_nonzero(x, *a, **k)


def sym_int(x):
    """Stand-in for builtin int()."""
    if isinstance(x, _np.ndarray) and x.ndim == 0 and x.dtype == object:
        x = x[()]
    if isinstance(x, _u.Quantity) and x.dtype == object:
        x = x.to_value(_u.one)
        if isinstance(x, _np.ndarray):
            x = x[()]
    if isinstance(x, SInt):
        return x
    if isinstance(x, SReal):
        return x.__trunc__()
    return builtins.int(x)


def conc_int(x):
    """Stand-in for builtin int() that concretises (bounded fork) -- where C code needs the int."""
    if isinstance(x, _np.ndarray) and x.ndim == 0 and x.dtype == object:
        x = x[()]
    if isinstance(x, (SInt, SReal)):
        return x.__int__()
    return builtins.int(x)


class OpProxy:
    def __getattr__(s, n):
        return getattr(_op, n)

    def index(s, x):
        return x if isinstance(x, SInt) else _op.index(x)


def sym_min(*a, **k):
    if len(a) == 1:
        a = tuple(a[0])
    if not any(has_shadow(x) for x in a):
        return builtins.min(*a, **k)
    r = a[0]
    for x in a[1:]:
        tr, tx = rv(r), rv(x)
        if tr.sort() != tx.sort():
            tr, tx = _toreal(tr), _toreal(tx)
        r = K.wrap(z3.If(tx < tr, tx, tr))
    return r


def sym_max(*a, **k):
    if len(a) == 1:
        a = tuple(a[0])
    if not any(has_shadow(x) for x in a):
        return builtins.max(*a, **k)
    r = a[0]
    for x in a[1:]:
        tr, tx = rv(r), rv(x)
        if tr.sort() != tx.sort():
            tr, tx = _toreal(tr), _toreal(tx)
        r = K.wrap(z3.If(tx > tr, tx, tr))
    return r


class MathProxy:
    def __getattr__(s, n):
        import math
        return getattr(math, n)

    def ceil(s, x):
        if isinstance(x, _np.ndarray) and x.ndim == 0:
            x = x[()]
        if isinstance(x, SNum):
            return x.__ceil__()
        import math
        return math.ceil(x)

    def floor(s, x):
        if isinstance(x, _np.ndarray) and x.ndim == 0:
            x = x[()]
        if isinstance(x, SNum):
            return x.__floor__()
        import math
        return math.floor(x)


# ---------------------------------------------------------------------------
class _QMeta(type):
    def __instancecheck__(cls, obj):
        return isinstance(obj, _u.Quantity)

    def __subclasscheck__(cls, sub):
        return issubclass(sub, _u.Quantity)

    def __call__(cls, x, *a, **k):
        if any_shadow(x) or _is_objq(x):
            k.pop("copy", None)
            k["dtype"] = object
            if isinstance(x, SymND):
                x = plain(x)
        return _u.Quantity(x, *a, **k)


class QuantityStandIn(metaclass=_QMeta):
    """u.Quantity stand-in: isinstance works as for the real class; construction keeps shadow values
    (astropy would otherwise cast object data to float)."""


class UProxy:
    """Module-global ``u`` (astropy.units) stand-in."""
    RTOL = K.realval(K.frac_of_float(1e-5))

    def __getattr__(s, n):
        return getattr(_u, n)

    @staticmethod
    def _pair(a, b):
        a = _u.Quantity(a, subok=True, copy=False) if not isinstance(a, _u.Quantity) else a
        b = _u.Quantity(b, subok=True, copy=False) if not isinstance(b, _u.Quantity) else b
        bv = b.to_value(a.unit)
        return _np.asarray(plain(a.value), dtype=object), _np.asarray(plain(bv), dtype=object)

    def isclose(s, a, b, rtol=1e-5, atol=None, **k):
        if not (_is_objq(a) or _is_objq(b)):
            return _u.isclose(a, b, rtol=rtol, atol=atol, **k)
        av, bv = s._pair(a, b)
        av, bv = _np.broadcast_arrays(av, bv)
        if atol is None:
            at = _np.zeros(av.shape, dtype=object)
        else:
            aq = atol if isinstance(atol, _u.Quantity) else _u.Quantity(atol, (a.unit if isinstance(a, _u.Quantity) else _u.one))
            at = _np.broadcast_to(_np.asarray(plain(aq.to_value(a.unit if isinstance(a, _u.Quantity) else _u.one)), dtype=object), av.shape)
        out = _np.empty(av.shape, dtype=object)
        r = K.realval(K.frac_of_float(rtol))
        for ix in _np.ndindex(*av.shape):
            x, y = _toreal(rv(av[ix])), _toreal(rv(bv[ix]))
            d = x - y
            ay = z3.If(y >= 0, y, -y)
            lim = r * ay + _toreal(rv(at[ix]))
            out[ix] = SBool(z3.And(d <= lim, -d <= lim))
        return out[()] if out.ndim == 0 else out

    def allclose(s, a, b, rtol=1e-5, atol=None, **k):
        if not (_is_objq(a) or _is_objq(b)):
            return _u.allclose(a, b, rtol=rtol, atol=atol, **k)
        r = s.isclose(a, b, rtol=rtol, atol=atol)
        if isinstance(r, SBool):
            return r
        acc = None
        for e in r.ravel():
            acc = e if acc is None else (acc & e)
        return acc if acc is not None else True

    @property
    def Quantity(s):
        return QuantityStandIn


def _is_objq(x):
    return isinstance(x, _u.Quantity) and x.dtype == object


# ---------------------------------------------------------------------------
_real_fft, _real_ifft = _sfft.fft, _sfft.ifft


def fft_stub(x, n=None, axis=-1, *a, **k):
    if isinstance(x, SymND) or (isinstance(x, _np.ndarray) and x.dtype == object):
        return SymND(sym_dft(x, axis=axis, n=n), _np.complex64 if getattr(x, "dtype", None) in (_np.dtype(_np.complex64), _np.dtype(_np.float32)) else _np.complex128)
    return _real_fft(x, n, axis, *a, **k)


def ifft_stub(x, n=None, axis=-1, *a, **k):
    if isinstance(x, SymND) or (isinstance(x, _np.ndarray) and x.dtype == object):
        return SymND(sym_dft(x, axis=axis, inverse=True, n=n), _np.complex64 if getattr(x, "dtype", None) in (_np.dtype(_np.complex64), _np.dtype(_np.float32)) else _np.complex128)
    return _real_ifft(x, n, axis, *a, **k)


_real_rfft, _real_irfft = _sfft.rfft, _sfft.irfft


def _cplx_dtype(x):
    return _np.complex64 if getattr(x, "dtype", None) in (_np.dtype(_np.complex64), _np.dtype(_np.float32)) else _np.complex128


def rfft_stub(x, n=None, axis=-1, *a, **k):
    """exact half spectrum of a real E-array: bins 0..N//2 of the exact DFT"""
    if isinstance(x, SymND) or (isinstance(x, _np.ndarray) and x.dtype == object):
        full = sym_dft(x, axis=axis, n=n)
        N = full.shape[axis]
        return SymND(_np.take(full, range(N // 2 + 1), axis=axis), _cplx_dtype(x))
    return _real_rfft(x, n, axis, *a, **k)


def irfft_stub(x, n=None, axis=-1, *a, **k):
    """exact inverse of rfft_stub: output length n (default 2*(m-1), as SciPy), Hermitian completion of the half spectrum"""
    if isinstance(x, SymND) or (isinstance(x, _np.ndarray) and x.dtype == object):
        xm = _np.moveaxis(_np.asarray(plain(x), dtype=object), axis, 0)
        m = xm.shape[0]
        N = 2 * (m - 1) if n is None else int(n)
        if N < 1 or m != N // 2 + 1:
            raise Unsupported("irfft with a spectrum length other than n//2 + 1")
        full = _np.empty((N,) + xm.shape[1:], dtype=object)
        for kk in range(N):
            if kk < m:
                full[kk] = xm[kk]
            else:
                src = xm[N - kk]
                conj = _np.empty(src.shape, dtype=object) if isinstance(src, _np.ndarray) else None
                if conj is None:
                    full[kk] = SComplex.of(src).conjugate()
                else:
                    for ix in _np.ndindex(*src.shape):
                        conj[ix] = SComplex.of(src[ix]).conjugate()
                    full[kk] = conj
        # (the imaginary parts of bin 0 and of the Nyquist bin are ignored by a c2r transform)
        t = sym_dft(full, axis=0, inverse=True)
        out = _np.empty(t.shape, dtype=object)
        for ix in _np.ndindex(*t.shape):
            out[ix] = SComplex.of(t[ix]).real
        # (taking the real part drops exactly what a c2r transform ignores: Im X[0] and, for even n, Im X[n/2])
        return SymND(_np.moveaxis(out, 0, axis), _np.float32 if _cplx_dtype(x) == _np.complex64 else _np.float64)
    return _real_irfft(x, n, axis, *a, **k)


for _f, _n in ((fft_stub, "fft"), (ifft_stub, "ifft"), (rfft_stub, "rfft"), (irfft_stub, "irfft")):
    _f.__name__ = _n
    _f.__qualname__ = _n


# ---------------------------------------------------------------------------
def standard_patches(tarr=False, time=True, concretize_int=False):
    """The usual stub set.  tarr=True adds the symbolic-length machinery (len, slice, getitem adapter)."""
    import pulsarbat.core as C
    import pulsarbat.transforms.transforms as T
    import pulsarbat.transforms.dedispersion as D
    import pulsarbat.utils as U
    import pulsarbat.contrib.misc as M
    npx = NPProxy()
    ux = UProxy()
    p = []
    for mod in (C, T, D, U, M):
        p.append((mod, "np", npx))
    for mod in (C, T, D, M):
        p.append((mod, "u", ux))
    p.append((T, "int", conc_int if concretize_int else sym_int))
    p.append((M, "int", conc_int))
    p.append((D, "math", MathProxy()))
    p.append((D, "min", sym_min))
    p.append((D, "max", sym_max))
    p.append((T, "min", sym_min))
    p.append((T, "max", sym_max))
    p.append((_sfft, "fft", fft_stub))
    p.append((_sfft, "ifft", ifft_stub))
    p.append((_sfft, "rfft", rfft_stub))
    p.append((_sfft, "irfft", irfft_stub))
    if time:
        for mod in (C, T, M):
            p.append((mod, "Time", SymTime))
    for mod in (C, T, D, M):
        p.append((mod, "len", symlen))
    p.append((C, "slice", SymSlice))
    p.append((C, "operator", OpProxy()))
    p.append((T, "operator", OpProxy()))
    for cls in (C.Signal, C.RadioSignal, C.FullStokesSignal):
        p.append((cls, "__getitem__", getitem_adapter(cls.__dict__["__getitem__"])))
    return p
