"""IEEE floating-point shadow values (round-to-nearest-even) for the short FP kernels (DESIGN.md 2.1, 2.5)."""
import numbers
from fractions import Fraction

import numpy as np
import z3

from .core import Ctx, SBool, Unsupported

RNE = z3.RNE()


class SFP:
    """z3 FloatingPoint term with Python/NumPy float semantics for + - * / neg abs comparisons floor."""
    shape = ()
    ndim = 0
    size = 1
    __iter__ = None
    dtype = np.dtype(object)
    SORT = z3.Float64()

    def __init__(s, e):
        s.e = e

    @classmethod
    def const(cls, v):
        if isinstance(v, SFP):
            return v.e
        if hasattr(v, "unit"):            # astropy Quantity: let its own operators handle it
            return None
        if isinstance(v, (bool, np.bool_)):
            v = int(v)
        if isinstance(v, (int, np.integer)):
            f = float(int(v))
            if Fraction(f) != int(v):
                raise Unsupported(f"integer {v} not exactly representable")
            return z3.FPVal(f, cls.SORT)
        if isinstance(v, (float, np.floating)):
            return z3.FPVal(float(v), cls.SORT)
        if isinstance(v, np.ndarray) and v.ndim == 0:
            return cls.const(v[()])
        return None

    def __getitem__(s, k):
        if k == () or k is Ellipsis:
            return s
        raise IndexError(k)

    def _bin(op, rev=False):
        def f(s, o):
            b = SFP.const(o)
            if b is None:
                return NotImplemented
            return SFP(op(RNE, b, s.e) if rev else op(RNE, s.e, b))
        return f
    __add__ = _bin(z3.fpAdd)
    __radd__ = _bin(z3.fpAdd, True)
    __sub__ = _bin(z3.fpSub)
    __rsub__ = _bin(z3.fpSub, True)
    __mul__ = _bin(z3.fpMul)
    __rmul__ = _bin(z3.fpMul, True)
    __truediv__ = _bin(z3.fpDiv)
    __rtruediv__ = _bin(z3.fpDiv, True)

    def __neg__(s):
        return SFP(z3.fpNeg(s.e))

    def __pos__(s):
        return s

    def __abs__(s):
        return SFP(z3.fpAbs(s.e))

    def _cmp(op):
        def f(s, o):
            b = SFP.const(o)
            if b is None:
                return NotImplemented
            return SBool(op(s.e, b))
        return f
    __lt__ = _cmp(z3.fpLT)
    __le__ = _cmp(z3.fpLEQ)
    __gt__ = _cmp(z3.fpGT)
    __ge__ = _cmp(z3.fpGEQ)
    __eq__ = _cmp(z3.fpEQ)
    __ne__ = _cmp(lambda a, b: z3.Not(z3.fpEQ(a, b)))
    __hash__ = None

    def __floor__(s):
        return SFP(z3.fpRoundToIntegral(z3.RTN(), s.e))

    def __ceil__(s):
        return SFP(z3.fpRoundToIntegral(z3.RTP(), s.e))

    def rint(s):
        return SFP(z3.fpRoundToIntegral(RNE, s.e))

    def __bool__(s):
        return bool(SBool(z3.Not(z3.fpIsZero(s.e))))

    def conjugate(s):
        return s

    @property
    def real(s):
        return s

    @property
    def imag(s):
        return SFP(z3.FPVal(0.0, s.SORT))

    def sign(s):
        z = z3.FPVal(0.0, s.SORT)
        return SFP(z3.If(z3.fpGT(s.e, z), z3.FPVal(1.0, s.SORT), z3.If(z3.fpLT(s.e, z), z3.FPVal(-1.0, s.SORT), s.e)))

    def __repr__(s):
        return f"SFP({z3.simplify(s.e)})"


numbers.Number.register(SFP)


def fp_value(v):
    """python float of a z3 FP numeral"""
    if z3.is_fp(v) and z3.is_fp_value(v):
        if v.isNaN():
            return float("nan")
        if v.isInf():
            return float("-inf") if v.isNegative() else float("inf")
        if v.isZero():
            return -0.0 if v.isNegative() else 0.0
        sig = Fraction(v.significand_as_long(), 2 ** (v.sbits() - 1))
        ex = v.exponent_as_long(biased=False)
        if not v.isSubnormal():
            sig += 1                      # implicit leading one of a normal number
        val = sig * (Fraction(2) ** ex)
        return float(-val if v.isNegative() else val)
    raise Unsupported(f"not an FP numeral: {v}")
