"""C19 - real_to_complex is the exact analytic-baseband conversion along any axis."""
import numpy as np
import z3

import pulsarbat as pb
from pbsym import core as K
from pbsym.modes import Raised, cterm
from pbsym.runner import Unit
from pbsym.symnd import SymND, plain

from .common import RV, cmul, cneq, dft_terms, magnitude_bound, neq

META = {
    "stubs": ["np proxy in pulsarbat.utils (asarray keeps E-arrays, iscomplexobj by claimed dtype, pi symbolic so that "
              "exp(-i pi n/2) evaluates to exact powers of -i)",
              "scipy.fft.fft/ifft replaced by the exact DFT with exact roots of unity when given an E-array"],
    "bounds": {"N": "quick {0,1,2,3,4}; thorough adds {6,8,12}", "rank": "1..3, every axis", "dtype": "float32, float64, int64"},
    "assumptions": ["exact real arithmetic (float32 accuracy outside the claim)"],
    "outside": ["N not in the listed set", "float32 rounding"],
}


class R2C(Unit):
    functions = ("pulsarbat.utils:real_to_complex",)
    witnesses = 1

    def __init__(self, shape, axis, dtype="float64"):
        self.shape, self.axis, self.dtype = tuple(shape), axis, dtype
        self.name = f"r2c-{'x'.join(map(str, shape))}-ax{axis}-{dtype}"
        self.bounds = {"shape": list(shape), "axis": axis, "dtype": dtype}

    def build(self, S):
        if self.dtype in ("complex128", "complex64"):
            z = S.carray("z", self.shape, np.dtype(self.dtype))
        elif np.dtype(self.dtype).kind in "iub":
            lo, hi = {"b": (0, 1), "u": (0, 50), "i": (-50, 50)}[np.dtype(self.dtype).kind]
            z = S.iarray("z", self.shape, lo, hi)
            z = SymND(z, np.dtype(self.dtype)) if S.symbolic else np.asarray(z).astype(self.dtype)
        else:
            z = S.rarray("z", self.shape, np.dtype(self.dtype))
        return {"z": z}

    def call(self, a):
        return pb.utils.real_to_complex(a["z"], axis=self.axis)

    def spec(self, S, a, out):
        if self.dtype in ("complex128", "complex64"):
            return [("complex-refused", z3.BoolVal(not (isinstance(out, Raised) and out.cls is ValueError)))]
        if isinstance(out, Raised):
            return [("no-exception", z3.BoolVal(True))]
        ax = self.axis % len(self.shape)
        N = self.shape[ax]
        M = (N + 1) // 2
        exp_shape = tuple(M if i == ax else d for i, d in enumerate(self.shape))
        want_dt = np.complex64 if self.dtype == "float32" else np.complex128
        checks = [("shape", z3.BoolVal(tuple(out.shape) != exp_shape)), ("dtype", z3.BoolVal(np.dtype(out.dtype) != np.dtype(want_dt)))]
        if tuple(out.shape) != exp_shape:
            return checks
        zin = np.moveaxis(plain(a["z"]) if S.symbolic else np.asarray(a["z"]), ax, 0)
        o = np.moveaxis(plain(out) if S.symbolic else np.asarray(out), ax, 0)
        mag = magnitude_bound(S, a["z"])
        tol = (2e-5 if self.dtype == "float32" else (2e-2 if self.dtype == "float16" else 1e-9)) * mag * max(1, N)
        bad_re, bad_an = [], []
        for ix in np.ndindex(*zin.shape[1:]):
            col = [cterm(zin[(n,) + ix]) for n in range(N)]
            X = dft_terms(col)
            # analytic signal: keep DC (and Nyquist for even N) once, positive frequencies twice, drop negative ones
            H = []
            for k in range(N):
                if k == 0 or (N % 2 == 0 and k == N // 2):
                    H.append(1)
                elif k < (N + 1) // 2:
                    H.append(2)
                else:
                    H.append(0)
            A = dft_terms([(x[0] * h, x[1] * h) for x, h in zip(X, H)], inverse=True)
            for m in range(M):
                sgn = 1 if m % 2 == 0 else -1
                got = cterm(o[(m,) + ix])
                bad_re.append(neq(S, got[0] * sgn, col[2 * m][0], tol))
                bad_an.append(cneq(S, got, (A[2 * m][0] * sgn, A[2 * m][1] * sgn), tol))
        checks.append(("real-part", z3.Or(bad_re) if bad_re else z3.BoolVal(False)))
        checks.append(("analytic-mixed-decimated", z3.Or(bad_an) if bad_an else z3.BoolVal(False)))
        return checks

    def compare(self, S, args, out, CS, cargs, cout):
        if isinstance(out, Raised) or isinstance(cout, Raised):
            ok = isinstance(out, Raised) and isinstance(cout, Raised) and out.cls is cout.cls
            return [] if ok else [f"outcome differs: {out!r} vs {cout!r}"]
        if tuple(out.shape) != tuple(cout.shape):
            return [f"shape {out.shape} vs {cout.shape}"]
        if np.dtype(out.dtype) != np.dtype(cout.dtype):
            return [f"dtype {out.dtype} vs {cout.dtype}"]
        pr = []
        po = plain(out)
        for ix in np.ndindex(*cout.shape):
            e = cterm(po[ix])
            x = complex(float(K.evalz(e[0], CS.env, CS.ufs)), float(K.evalz(e[1], CS.env, CS.ufs)))
            if abs(x - complex(cout[ix])) > 1e-4 * (1 + abs(cout[ix])):
                pr.append(f"{ix}: {x} vs {cout[ix]}")
        return pr[:3]

    def signature(self, label, values, detail):
        return f"real_to_complex:{label}"


def units(tier):
    Ns = (0, 1, 2, 3, 4) if tier == "quick" else (0, 1, 2, 3, 4, 6, 8, 12)
    us = []
    for N in Ns:
        us.append(R2C((N,), 0, "float64"))
        us.append(R2C((N,), -1, "float32"))
        us.append(R2C((N, 2), 0, "float32"))
        us.append(R2C((2, N), 1, "float64"))
        if N <= 4 or tier != "quick":
            us.append(R2C((2, N, 2), 1, "float64" if N % 2 else "int64"))
            us.append(R2C((N, 1, 2), 0, "float32"))
            us.append(R2C((1, 2, N), -1, "float64"))
    for dt in ("int8", "uint8", "int16", "uint16", "int32", "uint32", "uint64", "float16", "bool"):
        us.append(R2C((2,), 0, dt))
        us.append(R2C((2, 3), 1, dt))
    us.append(R2C((3,), 0, "complex128"))
    us.append(R2C((2, 2), 1, "complex128"))
    us.append(R2C((3,), 0, "complex64"))           # (every complex width is refused, not only Python's `complex`)
    us.append(R2C((2, 2), 0, "complex64"))
    return us
