"""C20 - pb.fft equals the reference DFT on both backends (dispatch part); STFT/ISTFT invert and label right."""
import itertools
from fractions import Fraction

import astropy.units as u
import numpy as np
import scipy.fft as sfft
import z3

import pulsarbat as pb
from pbsym import core as K
from pbsym.core import SInt
from pbsym.modes import Raised, SigView, cterm
from pbsym.runner import Unit
from pbsym.stubs import standard_patches
from pbsym.symnd import plain

from .common import RV, cadd, cmul, cneq, compare_signals, dft_terms, magnitude_bound, meta_checks, neq, rterm

META = {
    "stubs": ["dispatch units: each of the 14 scipy.fft.<name> is replaced by a distinct uninterpreted function U_name that records its "
              "arguments and returns a fresh token (pulsarbat's part is name -> function and argument forwarding; that scipy.fft.<name> "
              "is the reference DFT is the trusted base)",
              "STFT units: exact DFT stub, np proxy, SymTime, object Quantities as in C03"],
    "bounds": {"dispatch": "14 names x 6 argument patterns with symbolic n / axis passed through; unknown names",
               "stft": "nperseg in {1,2,3,4}; nchan in {1,2,3}; 1-2 segments plus a ragged tail; extra polarisation axis"},
    "assumptions": ["exact real arithmetic for STFT/ISTFT"],
    "outside": ["SciPy's numerics", "Dask branch (C09)", "windows other than boxcar (NotImplemented is returned)"],
}
NAMES = ["fft", "fft2", "fftn", "ifft", "ifft2", "ifftn", "rfft", "rfft2", "rfftn", "irfft", "irfft2", "irfftn", "hfft", "ihfft"]


class Token:
    def __init__(self, fn, args, kwargs):
        self.fn, self.args, self.kwargs = fn, args, kwargs


class Dispatch(Unit):
    functions = ("pulsarbat.fft:__getattr__", "pulsarbat.fft:__dir__")
    witnesses = 0

    def __init__(self, name, pattern):
        self.fname, self.pattern = name, pattern
        self.name = f"dispatch-{name}-{pattern}"
        self.bounds = {"function": name, "argument_pattern": pattern}

    def patches(self):
        p = []
        self.calls = []
        for nm in NAMES:
            def mk(nm):
                def U(*a, **k):
                    t = Token(nm, a, k)
                    self.calls.append(t)
                    return t
                U.__name__ = nm
                U.__qualname__ = nm
                U.__doc__ = f"uninterpreted {nm}"
                return U
            p.append((sfft, nm, mk(nm)))
        return p

    def build(self, S):
        n = S.int("n", 1, 64)
        ax = S.int("axis", -3, 2)
        x = object() if S.symbolic else np.arange(24, dtype=float).reshape(2, 3, 4) + 1j
        return {"x": x, "n": n, "axis": ax, "sym": S.symbolic}

    def _args(self, a):
        n, ax = a["n"], a["axis"]
        p = self.pattern
        multi = self.fname.endswith("2") or self.fname.endswith("n")
        if p == "x":
            return (a["x"],), {}
        if p == "pos-n":
            return ((a["x"], (n, n)) if multi else (a["x"], n)), {}
        if p == "pos-n-axis":
            return ((a["x"], (n, n), (0, ax)) if multi else (a["x"], n, ax)), {}
        if p == "kw-axis":
            return (a["x"],), ({"axes": (ax, 1)} if multi else {"axis": ax})
        if p == "kw-n-norm":
            return (a["x"],), ({"s": (n, 2), "norm": "ortho"} if multi else {"n": n, "norm": "forward"})
        if p == "kw-all":
            return (a["x"],), ({"s": (2, n), "axes": (ax, 0), "norm": "backward", "overwrite_x": False, "workers": 2} if multi else
                               {"n": n, "axis": ax, "norm": "ortho", "overwrite_x": True, "workers": 1})
        raise ValueError(p)

    def call(self, a):
        args, kw = self._args(a)
        f = getattr(pb.fft, self.fname)
        if not a["sym"]:
            # concrete run: real scipy; compare with the same-named scipy function directly
            ref = getattr(sfft, self.fname)
            try:
                want = ref(*args, **kw)
            except Exception as e:
                want = e
            try:
                got = f(*args, **kw)
            except Exception as e:
                got = e
            return {"got": got, "want": want}
        self.calls.clear()
        got = f(*args, **kw)
        return {"got": got, "calls": list(self.calls), "args": args, "kw": kw, "name": f.__name__}

    def spec(self, S, a, out):
        if isinstance(out, Raised):
            return [("no-exception", z3.BoolVal(True))]
        if not S.symbolic:
            g, w = out["got"], out["want"]
            if isinstance(w, Exception) or isinstance(g, Exception):
                return [("same-outcome", z3.BoolVal(type(g) is not type(w)))]
            same = isinstance(g, np.ndarray) and g.shape == w.shape and g.dtype == w.dtype and bool(np.array_equal(g, w))
            return [("same-outcome", z3.BoolVal(not same))]
        got, calls = out["got"], out["calls"]
        bad = not (len(calls) == 1 and got is calls[0] and calls[0].fn == self.fname)
        checks = [("dispatched-to-same-named-function", z3.BoolVal(bad))]
        if not bad:
            t = calls[0]
            same_args = len(t.args) == len(out["args"]) and all(_same(x, y) for x, y in zip(t.args, out["args"]))
            same_kw = set(t.kwargs) == set(out["kw"]) and all(_same(t.kwargs[k], out["kw"][k]) for k in t.kwargs)
            checks.append(("arguments-forwarded-unchanged", z3.BoolVal(not (same_args and same_kw))))
        checks.append(("name", z3.BoolVal(out["name"] != self.fname)))
        return checks

    def signature(self, label, values, detail):
        return f"fft-dispatch:{label}"


def _same(x, y):
    if isinstance(x, tuple) and isinstance(y, tuple):
        return len(x) == len(y) and all(_same(p, q) for p, q in zip(x, y))
    return x is y or (not isinstance(x, SInt) and not isinstance(y, SInt) and type(x) is type(y) and x == y)


class Names(Unit):
    functions = ("pulsarbat.fft:__getattr__", "pulsarbat.fft:__dir__")
    witnesses = 0
    name = "names"
    bounds = {"names": "the fourteen transforms; every other attribute name of scipy.fft and some arbitrary names"}

    def patches(self):
        return []

    def build(self, S):
        return {}

    def call(self, a):
        others = [n for n in dir(sfft) if n not in NAMES and not n.startswith("__")] + ["foo", "FFT", "fft_", "dct", "next_fast_len"]
        res = {}
        for n in others:
            try:
                getattr(pb.fft, n)
                res[n] = "no error"
            except AttributeError:
                res[n] = "AttributeError"
            except Exception as e:
                res[n] = type(e).__name__
        return {"others": res, "dir": list(pb.fft.__dir__()), "has": [callable(getattr(pb.fft, n)) for n in NAMES]}

    def spec(self, S, a, out):
        if isinstance(out, Raised):
            return [("no-exception", z3.BoolVal(True))]
        bad = [n for n, r in out["others"].items() if r != "AttributeError"]
        return [("unknown-names-raise-AttributeError", z3.BoolVal(bool(bad))), ("dir", z3.BoolVal(out["dir"] != sorted(NAMES))),
                ("all-fourteen-exposed", z3.BoolVal(not all(out["has"])))]

    def signature(self, label, values, detail):
        return f"fft-dispatch:{label}"


class STFT(Unit):
    functions = ("pulsarbat.contrib.misc:stft", "pulsarbat.contrib.misc:istft", "pulsarbat.core:RadioSignal.channel_freqs",
                 "pulsarbat.core:RadioSignal.__getitem__", "pulsarbat.core:Signal.like")
    witnesses = 1

    def patches(self):
        return standard_patches(concretize_int=True)

    def __init__(self, nperseg, nchan, nseg, tail, align, dual=False):
        self.nperseg, self.nchan, self.nseg, self.tail, self.align, self.dual = nperseg, nchan, nseg, tail, align, dual
        self.name = f"stft-p{nperseg}-c{nchan}-s{nseg}-t{tail}-{align}{'-dual' if dual else ''}"
        self.bounds = {"nperseg": nperseg, "nchan": nchan, "segments": nseg, "ragged_tail": tail, "freq_align": align, "dual_pol": dual}

    def build(self, S):
        N = self.nseg * self.nperseg + self.tail
        shape = (N, self.nchan) + ((2,) if self.dual else ())
        z = S.carray("z", shape)
        sr, cf, t0 = S.real("sr"), S.real("cf"), S.real("t0")
        S.assume(sr > Fraction(1, 100))
        S.assume(sr < 10**6)
        S.assume(cf > -10**6)
        S.assume(cf < 10**6)
        S.assume(t0 > -10**6)
        S.assume(t0 < 10**6)
        kw = dict(sample_rate=S.quantity(sr, u.kHz), center_freq=S.quantity(cf, u.MHz), start_time=S.time(t0), freq_align=self.align)
        sig = pb.DualPolarizationSignal(z, pol_type="circular", **kw) if self.dual else pb.BasebandSignal(z, **kw)
        return {"sig": sig, "z": z, "sr": sr}

    def call(self, a):
        st = pb.contrib.stft(a["sig"], nperseg=self.nperseg)
        labels = st.channel_freqs
        st_data = np.array(plain(st.data), dtype=object, copy=True) if not isinstance(st.data, np.ndarray) or st.data.dtype == object else st.data.copy()
        meta = SigView(st)
        back = pb.contrib.istft(st, nperseg=self.nperseg)
        return {"st_view": meta, "st_data": st_data, "st_labels": labels, "back": back}

    def spec(self, S, a, out):
        if isinstance(out, Raised):
            return [("no-exception", z3.BoolVal(True))]
        P, C, Q = self.nperseg, self.nchan, self.nseg
        vin, vs, vb = SigView(a["sig"]), out["st_view"], SigView(out["back"])
        z = plain(a["z"]) if S.symbolic else a["z"]
        mag = magnitude_bound(S, a["z"])
        tol = 1e-9 * mag * P
        checks = [("stft:length", vs.length != Q), ("stft:nchan", z3.BoolVal(vs.sample_shape[0] != C * P)),
                  ("stft:sample_rate", neq(S, vs.sr * P, vin.sr, 1e-6)), ("stft:type", z3.BoolVal(vs.cls is not vin.cls))]
        if vin.t0 is not None:
            checks.append(("stft:start_time", z3.BoolVal(vs.t0 is None) if vs.t0 is None else neq(S, vs.t0, vin.t0, 1e-9)))
        if vs.sample_shape[0] != C * P:
            return checks
        # labels: sub-channel j of input channel c carries frequency label_in(c) + (j - P//2) * sample_rate / P
        lin = vin.chan_freqs()
        from pbsym.modes import qterms
        lout = qterms(out["st_labels"], u.Hz)
        badl = []
        for c in range(C):
            for j in range(P):
                badl.append(neq(S, lout[c * P + j], lin[c] + RV(j - P // 2) * vin.sr / P, 1e-3))
        checks.append(("stft:labels", z3.Or(badl)))
        # values: DFT bin (j - P//2) of segment q of channel c, divided by nperseg
        rest = vin.sample_shape[1:]
        sd = out["st_data"]
        badv = []
        for c in range(C):
            for rx in np.ndindex(*rest):
                for q in range(Q):
                    col = [cterm(z[(q * P + m, c) + rx]) for m in range(P)]
                    X = dft_terms(col)
                    for j in range(P):
                        b = (j - P // 2) % P
                        want = (X[b][0] / P, X[b][1] / P)
                        badv.append(cneq(S, cterm(sd[(q, c * P + j) + rx]), want, tol))
        checks.append(("stft:values", z3.Or(badv) if badv else z3.BoolVal(False)))
        # inverse
        L = Q * P
        checks.append(("istft:length", vb.length != L))
        checks += [("istft:" + n, b) for n, b in meta_checks(S, vin, vb, what=("cls", "sr", "t0", "bw", "pol_type"), tol_t=1e-9)]
        lb = vb.chan_freqs()
        checks.append(("istft:labels", z3.Or([z3.BoolVal(len(lb) != C)] + [neq(S, x, y, 1e-3) for x, y in zip(lb, lin)])))
        badi = []
        if vb.nlen == L and vb.sample_shape == vin.sample_shape:
            for t in range(L):
                for ix in np.ndindex(*vin.sample_shape):
                    badi.append(cneq(S, vb.elem(t, ix), cterm(z[(t,) + ix]), tol))
        else:
            badi.append(z3.BoolVal(True))
        checks.append(("istft:samples", z3.Or(badi) if badi else z3.BoolVal(False)))
        return checks

    def compare(self, S, args, out, CS, cargs, cout):
        if isinstance(out, Raised) or isinstance(cout, Raised):
            return compare_signals(S, out, CS, cout)
        return compare_signals(S, out["back"], CS, cout["back"], rtol=1e-9, time_tol=1e-7)

    def signature(self, label, values, detail):
        return f"stft:{label}"


def units(tier):
    us = [Names()]
    pats = ["x", "pos-n", "pos-n-axis", "kw-axis", "kw-n-norm", "kw-all"]
    for nm in NAMES:
        for p in pats:
            us.append(Dispatch(nm, p))
    acyc = itertools.cycle(["center", "bottom", "top"])
    for P in ((1, 2, 4) if tier == "quick" else (1, 2, 3, 4)):
        for C in (1, 2, 3):
            if tier == "quick" and P == 4 and C == 3:
                continue
            us.append(STFT(P, C, 1 if (P + C) % 2 else 2, (P + C) % P if P > 1 else 0, next(acyc)))
        us.append(STFT(P, 2, 1, 0, next(acyc), dual=True))
        us.append(STFT(P, 2, 2, P - 1, next(acyc)))
    if tier == "quick":
        us.append(STFT(3, 1, 2, 1, "center"))
        us.append(STFT(3, 2, 1, 0, "bottom"))
    return us
