"""C15, decimal rendering: Phase.to_string(precision=p) and format(phase, '.pf') on the exact two-part value.

The real `do_format` / `__format__` run on shadow numbers; what `format(x, '1.pf')`, `str(x)`, `str(int)` return is a symbolic
string (pbsym/sstr.py) whose digits are solver variables constrained by the renderer's contract (correct rounding of the exact
value).  The string surgery of the code (slicing, `int()` of two digits, re-assembly, carry detection) is executed as written."""
from fractions import Fraction

import numpy as np
import z3

import pulsarbat.pulsar.phase as P
from pbsym import core as K
from pbsym import sstr
from pbsym.core import SReal
from pbsym.modes import Raised
from pbsym.runner import Unit
from pbsym.stubs import NPProxy, sym_int
from pbsym.symnd import plain

from .common import RV, rterm, zabs


class RenderNP(NPProxy):
    def vectorize(self, f, otypes=None, **k):
        """np.vectorize for scalar/1-d object operands: calls `f` per element on the shadow values themselves"""
        def run(*args):
            arrs = []
            for a in args:
                a = plain(a) if not isinstance(a, np.ndarray) or a.dtype != object else a
                arrs.append(a if isinstance(a, np.ndarray) else np.array(a, dtype=object))
            shape = np.broadcast_shapes(*[a.shape for a in arrs])
            out = np.empty(shape, dtype=object)
            for ix in np.ndindex(*shape):
                out[ix] = f(*[np.broadcast_to(a, shape)[ix] for a in arrs])
            return out
        return run


def render_patches():
    from .C15 import OBJ_DTYPE
    return [(P.Phase, "_phase_dtype", OBJ_DTYPE), (P, "np", RenderNP()), (P, "str", sstr.sym_str), (P, "int", sstr.sym_int_str(sym_int)),
            (P, "float", sstr.sym_float), (P, "format", sstr.sym_format)]


class Render(Unit):
    functions = ("pulsarbat.pulsar.phase:Phase.to_string", "pulsarbat.pulsar.phase:Phase.__format__", "pulsarbat.pulsar.phase:Phase.__getitem__",
                 "pulsarbat.pulsar.phase:Phase.to_value")
    witnesses = 2
    fork_cap = 300

    def __init__(self, how, precision, imaginary=False, alwayssign=False, latex=False, maxcount=2**52):
        self.how, self.precision, self.imaginary, self.alwayssign, self.latex, self.maxcount = how, precision, imaginary, alwayssign, latex, maxcount
        self.name = f"render-{how}-p{precision}{'-imag' if imaginary else ''}{'-sign' if alwayssign else ''}{'-latex' if latex else ''}" \
                    f"{'' if maxcount == 2**52 else '-small'}"
        self.bounds = {"via": how, "precision": precision, "imaginary": imaginary, "alwayssign": alwayssign, "latex": latex,
                       "|count|<=": maxcount, "fraction": "[-1/2, 1/2]"}

    def patches(self):
        return render_patches()

    def build(self, S):
        from .C15 import mkphase
        i = S.int("i", -self.maxcount, self.maxcount)
        f = S.real("f")
        S.assume(f >= Fraction(-1, 2))
        S.assume(f <= Fraction(1, 2))
        ph = mkphase(SReal(z3.ToReal(i.e)) if S.symbolic else float(i), f, self.imaginary)
        return {"ph": ph, "i": i, "f": f}

    def call(self, a):
        if self.how == "format":
            return format(a["ph"], f".{self.precision}f")
        kw = {"precision": self.precision, "alwayssign": self.alwayssign}
        if self.latex:
            kw["format"] = "latex"
        return a["ph"].to_string(**kw)

    def spec(self, S, a, out):
        if isinstance(out, Raised):
            return [("no-exception", z3.BoolVal(True))]
        if isinstance(out, np.ndarray):
            out = out[()]
        if not isinstance(out, str):
            return [("returns-str", z3.BoolVal(True))]
        cells = list(sstr.SStr.of(out if isinstance(out, sstr.SStr) else str(out)).cells)
        checks = []
        if self.latex:
            if len(cells) < 2 or cells[0] != "$" or cells[-1] != "$":
                return [("latex-delimiters", z3.BoolVal(True))]
            cells = cells[1:-1]
        has_j = bool(cells) and cells[-1] == "j"
        checks.append(("imaginary-suffix", z3.BoolVal(has_j != self.imaginary)))
        if has_j:
            cells = cells[:-1]
        vc = sstr.value_of_cells(cells)
        if vc is None:
            return checks + [("well-formed-decimal", z3.BoolVal(True))]
        exact = rterm(a["i"]) + rterm(a["f"])
        p = self.precision
        if p is None:
            tol = RV(Fraction(1, 10**16)) + (0 if S.symbolic else RV(Fraction(1, 10**16)))
        else:
            tol = RV(Fraction(1, 2 * 10**p)) + (0 if S.symbolic else RV(Fraction(1, 2**53)))
            checks.append(("decimals-shown", z3.BoolVal(vc["ndec"] != p)))
        checks.append(("value", zabs(vc["value"] - exact) > tol))
        checks.append(("minus-sign", z3.And(z3.BoolVal(vc["sign"] == "-"), exact >= 0)))
        if self.alwayssign:
            checks.append(("always-sign", z3.BoolVal(vc["sign"] == "")))
        else:
            checks.append(("plus-sign", z3.BoolVal(vc["sign"] == "+")))
        return checks

    def witness_constraints(self, ctx):
        """witness inputs away from exact decimal ties and well inside the fraction range: there the float the real code
        sees (not the exact rational of the model) decides the rounding direction, and float(1/2000) is not 1/2000"""
        f = ctx.inputs["f"]
        cons = [f > Fraction(-49, 100), f < Fraction(49, 100)]
        if self.precision is not None:
            k = 10 ** self.precision
            fl = z3.ToReal(z3.ToInt(f * k))
            cons += [f * k - fl > Fraction(1, 10), f * k - fl < Fraction(4, 10)]
        return cons

    def compare(self, S, args, out, CS, cargs, cout):
        """the symbolic string, evaluated at the concrete inputs (its digit variables are determined by the renderer axioms),
        must be the string the unpatched code returns"""
        if isinstance(out, Raised) or isinstance(cout, Raised):
            return [] if (isinstance(out, Raised) and isinstance(cout, Raised)) else [f"outcomes differ: {out!r} vs {cout!r}"]
        ctx = S.ctx
        if isinstance(out, np.ndarray):
            out = out[()]
        sstr.activate_all(sstr.SStr.of(out if isinstance(out, sstr.SStr) else str(out)).cells)
        fix = [c == K.realval(Fraction(CS.env[n])) if c.sort() == z3.RealSort() else c == int(CS.env[n]) for n, c in ctx.inputs.items()]
        r, m = ctx._check(*fix)
        if r != "sat":
            return [f"renderer axioms not satisfiable at the concrete inputs ({r})"]
        cells = sstr.SStr.of(out if isinstance(out, sstr.SStr) else str(out)).cells
        txt = "".join(c if isinstance(c, str) else str(m.eval(c[1], model_completion=True).as_long()) for c in cells)
        real = str(cout)
        if txt == real:
            return []
        # the renderer models admit several strings for one input (either neighbour at an exact tie; any short-enough decimal
        # within half an ulp for str()): the real string has to be one of them
        pieces, pos, same = [], 0, []
        for c in cells:
            width = 1 if isinstance(c, str) or c[0] == "d" else len(str(m.eval(c[1], model_completion=True).as_long()))
            pieces.append((c, real[pos:pos + width]))
            pos += width
        if pos == len(real) and all(len(r) == (1 if isinstance(c, str) or c[0] == "d" else len(r)) and r for c, r in pieces):
            for c, r in pieces:
                if isinstance(c, str):
                    same.append(z3.BoolVal(c == r))
                elif r.isdigit():
                    same.append(c[1] == int(r))
                else:
                    same.append(z3.BoolVal(False))
            if ctx._check(*(fix + same))[0] == "sat":
                return []
        elif self.precision is None:
            return None        # str(): this path fixes another number of digits than repr chose for this input - not comparable
        return [f"symbolic run renders {txt!r}, real code {real!r}"]

    def signature(self, label, values, detail):
        p = self.precision
        pc = "none" if p is None else ("lt2" if p < 2 else "ge2")
        return f"render:{self.how}:precision-{pc}:{label}"


def units(tier):
    us = []
    precs = (0, 1, 2, 3, 6) if tier == "quick" else (0, 1, 2, 3, 4, 5, 6, 8, 10, 12, 15)
    for p in precs:
        us.append(Render("to_string", p))
    us += [Render("to_string", 2, imaginary=True), Render("to_string", 3, alwayssign=True), Render("to_string", 2, latex=True)]
    for p in ((1, 2, 4) if tier == "quick" else (1, 2, 3, 4, 6, 9)):
        us.append(Render("format", p))
    us.append(Render("to_string", None))
    if tier != "quick":
        us += [Render("to_string", None, imaginary=True), Render("to_string", None, alwayssign=True), Render("to_string", 1, imaginary=True),
               Render("to_string", 0, alwayssign=True), Render("format", 2, maxcount=50)]
    return us
