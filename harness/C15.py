"""C15 - Phase ordering, reductions and decimal I/O use the full two-part value."""
import itertools
import math
import os
import subprocess
import sys
from fractions import Fraction

import astropy.units as u
import numpy as np
import z3

import pulsarbat as pb
import pulsarbat.pulsar.phase as P
from pbsym import core as K
from pbsym.core import SBool
from pbsym.fp import RNE, SFP
from pbsym.modes import Raised
from pbsym.runner import Unit
from pbsym.stubs import NPProxy

META = {
    "stubs": ["Phase._phase_dtype replaced by object fields [('int','O'),('frac','O')] so that a Phase can hold shadow values; the real "
              "__array_ufunc__ / argmin / argmax / argsort / sort / min / max / ptp code runs on them",
              "IEEE float64 shadow values (z3 FloatingPoint (11,53), round-to-nearest-even) for the two parts; z3 tactic solver qffp",
              "_parse_string: CrossHair (second symbolic executor) on a symbolic str, plus solver-free exact replays",
              "rendering: str/int/float/format in pulsarbat.pulsar.phase and the shadow numbers' __format__ return symbolic decimal strings "
              "(pbsym/sstr.py): '.Nf' = digits of the exact value rounded to nearest (either neighbour at a tie), str() of 0.25 <= x < 1 = "
              "'0.' + 1..17 digits (last non-zero) within half an ulp and on x's side of 1/4 and 1/2; np.vectorize calls the function per element"],
    "bounds": {"comparisons": "all float64 pairs of normalised real phases (|count| <= 2^52 integer-valued, |frac| <= 1/2), six operators", "reductions": "argmin, argmax, min, max on arrays of length 2 at the (5,11) float format (the code is width-generic; z3 does not finish at (11,53)); thorough adds length 3 at (4,7). argsort/sort/ptp are NOT decided",
               "parsing": "strings of the plain-decimal grammar up to length 6 (quick) / 8 (thorough)",
               "rendering": "every count |i| <= 2^52 and fraction in [-1/2, 1/2]; to_string precision in {0,1,2,3,6,None} quick, "
                            "{0..6,8,10,12,15,None} thorough; format '.Nf' N in {1,2,4} quick, {1,2,3,4,6,9} thorough; imaginary, alwayssign, latex"},
    "assumptions": ["operands normalised as the constructor produces them"],
    "outside": ["rendering is decided on exact reals: the float rounding of frac + 0.25 / frac + 1 and precisions above 15 are outside",
                "argsort/sort/ptp", "arrays longer than 3"],
}
def F64():
    return SFP.SORT


def T52():
    return 2.0 ** (SFP.SORT.sbits() - 1)


def fpv(x):
    return z3.FPVal(float(x), SFP.SORT)


def lift(x, sb):
    """float64 counterpart of a value of a narrower format with sb significand bits: the same number of units in the last
    place away from the nearest multiple of 1/4 (near-ties are what the reduced-width counterexamples are made of)"""
    import math
    x = float(x)
    if sb >= 53 or x == 0 or math.isinf(x) or math.isnan(x):
        return x
    r = round(x * 4) / 4
    d = x - r
    if d == 0:
        return x
    # ulp of the narrow format at the position just on the x side of r
    probe = abs(r) if abs(x) >= abs(r) and r != 0 else abs(x)
    e = math.frexp(probe if probe else abs(d))[1]               # probe in [2^(e-1), 2^e)
    if abs(x) < abs(r) and abs(r) == 2.0 ** (e - 1):
        e -= 1                                                   # just below a power of two: finer spacing
    ulp_small = 2.0 ** (e - sb)
    k = d / ulp_small
    if abs(k) > 8 or k != int(k):
        return x                                                 # not a near-tie pattern: keep the value
    return r + k * 2.0 ** (e - 53)


def norm_pre(S, i, f):
    if S.symbolic:
        return z3.And(z3.fpRoundToIntegral(RNE, i.e) == i.e, z3.fpLEQ(z3.fpAbs(i.e), fpv(T52())), z3.fpGEQ(f.e, fpv(-0.5)), z3.fpLEQ(f.e, fpv(0.5)),
                      z3.Not(z3.fpIsNaN(f.e)), z3.Not(z3.fpIsNaN(i.e)))
    return (not math.isnan(i)) and (not math.isnan(f)) and float(i).is_integer() and abs(i) <= T52() and -0.5 <= f <= 0.5


def mkphase(ints, fracs, imaginary=False):
    """Phase holding exactly the given parts (no normalisation)."""
    from pbsym.tarr import has_shadow
    sym = any(isinstance(x, SFP) or has_shadow(x) for x in np.ravel(np.asarray(ints, dtype=object)))
    ints = np.asarray(ints, dtype=object if sym else float)
    v = np.empty(ints.shape, P.Phase._phase_dtype)
    v["int"] = ints
    v["frac"] = np.asarray(fracs, dtype=ints.dtype)
    p = v.view(P.Phase)
    p.imaginary = imaginary
    return p


OBJ_DTYPE = np.dtype([("int", "O"), ("frac", "O")])


def phase_patches():
    return [(P.Phase, "_phase_dtype", OBJ_DTYPE), (P, "np", NPProxy())]


def exact_order(i1, f1, i2, f2):
    """(lt, eq) of the exact values i1+f1 vs i2+f2 for normalised operands, as z3 terms over FP terms.
    D = i1 - i2 is exact (integers up to 2^53); for |D| >= 2 its sign decides; for D = +-1 the values can only coincide at
    frac = -+1/2; for D = 0 the fractions decide."""
    D = z3.fpSub(RNE, i1, i2)
    two, one, zero, h = fpv(2.0), fpv(1.0), fpv(0.0), fpv(0.5)
    tie_m = z3.And(z3.fpEQ(f1, h), z3.fpEQ(f2, z3.fpNeg(h)))       # D = -1 and values equal
    tie_p = z3.And(z3.fpEQ(f1, z3.fpNeg(h)), z3.fpEQ(f2, h))       # D = +1 and values equal
    lt = z3.Or(z3.fpLEQ(D, z3.fpNeg(two)), z3.And(z3.fpEQ(D, z3.fpNeg(one)), z3.Not(tie_m)), z3.And(z3.fpEQ(D, zero), z3.fpLT(f1, f2)))
    eq = z3.Or(z3.And(z3.fpEQ(D, zero), z3.fpEQ(f1, f2)), z3.And(z3.fpEQ(D, z3.fpNeg(one)), tie_m), z3.And(z3.fpEQ(D, one), tie_p))
    return lt, eq


def exact_order_py(i1, f1, i2, f2):
    a, b = Fraction(i1) + Fraction(f1), Fraction(i2) + Fraction(f2)
    return a < b, a == b


class Compare(Unit):
    def path(self, ctx, state):
        SFP.SORT = z3.Float64()
        return Unit.path(self, ctx, state)

    functions = ("pulsarbat.pulsar.phase:Phase.__array_ufunc__", "pulsarbat.pulsar.phase:Phase.__eq__", "pulsarbat.pulsar.phase:Phase.__ne__")
    witnesses = 0
    query_timeout_ms = 600000
    solver_factory = staticmethod(lambda: z3.Tactic("qffp").solver())
    budget_s = 3000
    keep_budget = True           # full-width float64 queries take tens of seconds: keep the long budget in the quick tier too

    def __init__(self, op, imaginary=False):
        self.op, self.imaginary = op, imaginary
        self.name = f"compare-{op}{'-imag' if imaginary else ''}"
        self.bounds = {"operator": op, "operands": "all normalised float64 pairs", "imaginary": imaginary}

    def patches(self):
        return phase_patches()

    def build(self, S):
        v = {n: S.fp(n) for n in ("i1", "f1", "i2", "f2")}
        S.assume(norm_pre(S, v["i1"], v["f1"]))
        S.assume(norm_pre(S, v["i2"], v["f2"]))
        a = mkphase(v["i1"], v["f1"], self.imaginary)
        b = mkphase(v["i2"], v["f2"], self.imaginary)
        return {"a": a, "b": b, "v": v}

    def call(self, a):
        import operator
        f = {"lt": operator.lt, "le": operator.le, "gt": operator.gt, "ge": operator.ge, "eq": operator.eq, "ne": operator.ne}[self.op]
        r = f(a["a"], a["b"])
        if isinstance(r, np.ndarray):
            r = r[()]
        return bool(r)

    def spec(self, S, a, out):
        if isinstance(out, Raised):
            return [("no-exception", z3.BoolVal(True))]
        v = a["v"]
        if S.symbolic:
            lt, eq = exact_order(v["i1"].e, v["f1"].e, v["i2"].e, v["f2"].e)
            want = {"lt": lt, "le": z3.Or(lt, eq), "gt": z3.Not(z3.Or(lt, eq)), "ge": z3.Not(lt), "eq": eq, "ne": z3.Not(eq)}[self.op]
            return [("exact-ordering", want != z3.BoolVal(bool(out)))]
        lt, eq = exact_order_py(v["i1"], v["f1"], v["i2"], v["f2"])
        want = {"lt": lt, "le": lt or eq, "gt": not (lt or eq), "ge": not lt, "eq": eq, "ne": not eq}[self.op]
        return [("exact-ordering", z3.BoolVal(bool(want) != bool(out)))]

    def signature(self, label, values, detail):
        return f"phase-compare:{label}"


class Reduce(Unit):
    """argmin / argmax / min / max / argsort / sort / ptp on short arrays of normalised phases"""
    functions = ("pulsarbat.pulsar.phase:Phase.argmin", "pulsarbat.pulsar.phase:Phase.argmax", "pulsarbat.pulsar.phase:Phase.argsort",
                 "pulsarbat.pulsar.phase:Phase.min", "pulsarbat.pulsar.phase:Phase.max", "pulsarbat.pulsar.phase:Phase.sort",
                 "pulsarbat.pulsar.phase:Phase.ptp", "pulsarbat.pulsar.phase:Phase._take_along_axis")
    witnesses = 0
    query_timeout_ms = 600000
    solver_factory = staticmethod(lambda: z3.Tactic("qffp").solver())
    budget_s = 3000
    keep_budget = True
    max_violations = 1

    def __init__(self, op, n, fmt=(5, 11)):
        self.op, self.n, self.fmt = op, n, fmt
        self.name = f"reduce-{op}-n{n}-fp{fmt[0]}_{fmt[1]}"
        self.bounds = {"operation": op, "length": n, "float_format(exponent,significand bits)": list(fmt),
                       "note": "decided at this reduced width (the code is width-generic; z3 does not finish at (11,53)); counterexamples "
                               "are lifted to float64 and replayed on the real code"}

    def patches(self):
        SFP.SORT = z3.FPSort(*self.fmt)
        return phase_patches()

    def concrete(self, values):
        SFP.SORT = z3.Float64()
        lifted = {k: (lift(v, self.fmt[1]) if isinstance(v, float) else v) for k, v in values.items()}
        return Unit.concrete(self, lifted)

    def path(self, ctx, state):
        SFP.SORT = z3.FPSort(*self.fmt)
        try:
            return Unit.path(self, ctx, state)
        finally:
            SFP.SORT = z3.Float64()

    def build(self, S):
        ints = [S.fp(f"i{k}") for k in range(self.n)]
        fr = [S.fp(f"f{k}") for k in range(self.n)]
        for i, f in zip(ints, fr):
            S.assume(norm_pre(S, i, f))
        return {"p": mkphase(ints, fr), "ints": ints, "fr": fr}

    def call(self, a):
        p = a["p"]
        op = self.op
        if op in ("argmin", "argmax"):
            return int(getattr(p, op)())
        if op == "argsort":
            return [int(x) for x in p.argsort()]
        r = getattr(p, op)()
        vv = r.view(np.ndarray)
        return {"int": np.atleast_1d(vv["int"]).tolist(), "frac": np.atleast_1d(vv["frac"]).tolist(), "type": type(r).__name__}

    def _lt_eq(self, S, a, j, k):
        if S.symbolic:
            return exact_order(a["ints"][j].e, a["fr"][j].e, a["ints"][k].e, a["fr"][k].e)
        lt, eq = exact_order_py(a["ints"][j], a["fr"][j], a["ints"][k], a["fr"][k])
        return z3.BoolVal(lt), z3.BoolVal(eq)

    def spec(self, S, a, out):
        if isinstance(out, Raised):
            return [("no-exception", z3.BoolVal(True))]
        n, op = self.n, self.op
        checks = []
        if op in ("argmin", "argmax"):
            j = out
            bad = []
            for k in range(n):
                lt, eq = self._lt_eq(S, a, k, j) if op == "argmin" else self._lt_eq(S, a, j, k)
                bad.append(lt)                 # some element strictly smaller (larger) than the chosen one
            checks.append((f"{op}-is-extreme", z3.Or(bad)))
        elif op == "argsort":
            perm = out
            checks.append(("is-permutation", z3.BoolVal(sorted(perm) != list(range(n)))))
            if sorted(perm) == list(range(n)):
                bad = []
                for x, y in zip(perm, perm[1:]):
                    lt, eq = self._lt_eq(S, a, y, x)
                    bad.append(lt)             # a later element strictly smaller than an earlier one
                checks.append(("non-decreasing", z3.Or(bad) if bad else z3.BoolVal(False)))
        else:
            checks.append(("returns-Phase", z3.BoolVal(out["type"] != "Phase")))
            ri, rf = out["int"], out["frac"]

            def same(idx, pos):
                """returned element pos has exactly the parts of input idx"""
                if S.symbolic:
                    return z3.And(z3.fpEQ(SFP.const(ri[pos]), a["ints"][idx].e), z3.fpEQ(SFP.const(rf[pos]), a["fr"][idx].e))
                return z3.BoolVal(ri[pos] == a["ints"][idx] and rf[pos] == a["fr"][idx])
            if op in ("min", "max"):
                alts = []
                for j in range(n):
                    ext = []
                    for k in range(n):
                        lt, eq = self._lt_eq(S, a, k, j) if op == "min" else self._lt_eq(S, a, j, k)
                        ext.append(z3.Not(lt))
                    alts.append(z3.And(same(j, 0), *ext))
                checks.append((f"{op}-is-an-extreme-element", z3.Not(z3.Or(alts))))
            elif op == "sort":
                alts = []
                for perm in itertools.permutations(range(n)):
                    conds = [same(idx, pos) for pos, idx in enumerate(perm)]
                    for x, y in zip(perm, perm[1:]):
                        lt, eq = self._lt_eq(S, a, y, x)
                        conds.append(z3.Not(lt))
                    alts.append(z3.And(conds))
                checks.append(("sorted-permutation", z3.Not(z3.Or(alts))))
            elif op == "ptp":
                # normalised result: |frac| <= 1/2 and integer count
                if S.symbolic:
                    i0, f0 = SFP.const(ri[0]), SFP.const(rf[0])
                    checks.append(("normalised", z3.Not(z3.And(z3.fpRoundToIntegral(RNE, i0) == i0, z3.fpLEQ(z3.fpAbs(f0), fpv(0.5))))))
                else:
                    checks.append(("normalised", z3.BoolVal(not (float(ri[0]).is_integer() and abs(rf[0]) <= 0.5))))
        return checks

    def signature(self, label, values, detail):
        # near-tie: some pair of elements closer together than 2^-40 cycles (far below the resolution of a double holding their count)
        try:
            vals = [Fraction(float(lift(values[f"i{k}"], self.fmt[1]))) + Fraction(float(lift(values[f"f{k}"], self.fmt[1]))) for k in range(self.n)]
            near = any(0 <= abs(a - b) < Fraction(1, 2**40) for i, a in enumerate(vals) for b in vals[i + 1:])
        except Exception:
            near = False
        return f"phase-reduce:{self.op}:{'near-tie-below-double-resolution' if near else label}"


class ParseString(Unit):
    """_parse_string / from_string on every string of a small decimal grammar, decided by CrossHair on a symbolic str
    (second engine) - see crosshair_parse.py - and confirmed by exact replays."""
    functions = ("pulsarbat.pulsar.phase:_parse_string", "pulsarbat.pulsar.phase:Phase.from_string", "pulsarbat.pulsar.phase:check_imaginary")
    witnesses = 0
    budget_s = 1500

    def __init__(self, maxlen, timeout):
        self.maxlen, self.timeout = maxlen, timeout
        self.name = f"parse-crosshair-len{maxlen}"
        self.bounds = {"max_string_length": maxlen, "per_condition_timeout_s": timeout}

    def path(self, ctx, state):
        """runs CrossHair in a subprocess; a counterexample is replayed exactly before it is reported"""
        here = os.path.dirname(os.path.abspath(__file__))
        env = dict(os.environ, PBSYM_PARSE_MAXLEN=str(self.maxlen), PYTHONPATH="/repo:" + os.environ.get("PYTHONPATH", ""))
        cmd = [sys.executable, "-m", "crosshair", "check", "--report_all", "--per_condition_timeout", str(self.timeout),
               "--per_path_timeout", "10", os.path.join(here, "crosshair_parse.py")]
        r = subprocess.run(cmd, capture_output=True, text=True, env=env, timeout=self.timeout * 6 + 120)
        txt = (r.stdout + r.stderr)
        state.setdefault("extra", {})["crosshair_output"] = txt[-1500:]
        ctx.notes["crosshair"] = txt[-600:]
        import re
        found = []
        for line in txt.splitlines():
            m = re.search(r"when calling (\w+)\((?:s ?= ?)?('(?:[^'\\]|\\.)*'|\"(?:[^\"\\]|\\.)*\")\)", line)
            if m and "error" in line:
                try:
                    found.append((m.group(1), eval(m.group(2))))
                except Exception:
                    pass
        from .crosshair_parse import EXEMPLARS, exact_check, from_string_check
        # (concrete sanity run of the vectorised from_string wrapper on exemplar spellings; np.vectorize is a C boundary that
        #  neither engine can enter symbolically - this is not the deciding step for _parse_string)
        for s in EXEMPLARS:
            msg = from_string_check(s)
            if msg:
                state["violations"].append({"unit": self.name, "label": "from_string", "values": {"s": s},
                                            "detail": f"Phase.from_string({s!r}): {msg}", "signature": "from_string:parse", "decisions": []})
                ctx.reached = True
                return None
        state.setdefault("extra", {})["from_string_exemplars_checked"] = len(EXEMPLARS)
        ctx.reached = True
        ctx.checks.append(("crosshair", "sat" if found else "unsat", 0.0, None))
        ctx.stats["queries"] += 1
        for fn, s in found[:5]:
            msg = exact_check(s)
            if msg:
                state["violations"].append({"unit": self.name, "label": "parse", "values": {"s": s},
                                            "detail": f"{fn}({s!r}): {msg} (CrossHair counterexample, confirmed by exact replay)",
                                            "signature": "from_string:parse", "decisions": []})
                return None
        if found:
            state["unconfirmed"].append({"unit": self.name, "label": "parse", "values": {"s": found[0][1]},
                                         "detail": "CrossHair counterexample did not reproduce", "tries": 1})
        verdicts = [l for l in txt.splitlines() if "Confirmed over all paths" in l or "Not confirmed" in l or "Unable to meet" in l]
        state["extra"]["crosshair_verdicts"] = verdicts[:6]
        if any("Unable to meet" in l for l in verdicts) or not verdicts:
            state["unknown"].append("crosshair: " + (verdicts[0] if verdicts else txt[-200:]))
        return None

    def replay(self, label, values):
        from .crosshair_parse import exact_check
        msg = exact_check(values["s"])
        return ("reproduced", msg) if msg else ("not_reproduced", "parses correctly")

    def signature(self, label, values, detail):
        return "from_string:parse"


def units(tier):
    us = []
    for op in ("lt", "le", "gt", "ge", "eq", "ne"):
        us.append(Compare(op))
    # argsort / sort / ptp subtract phases, i.e. run the two-double day_frac chain, which z3 does not decide even at an 8-bit
    # significand (unknown after 600 s): they are not claimed (DESIGN.md section 5)
    for op in (("argmin", "max") if tier == "quick" else ("argmin", "argmax", "min", "max")):
        us.append(Reduce(op, 2))
    if tier != "quick":
        us.append(Reduce("argmin", 3, fmt=(4, 7)))
    us.append(ParseString(5 if tier == "quick" else 7, 60 if tier == "quick" else 600))
    from . import C15_render, C15_cmpkinds
    us += C15_render.units(tier)
    us += C15_cmpkinds.units(tier)
    return us
