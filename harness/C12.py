"""C12 - snippet returns exactly n samples starting exactly at the requested time."""
from fractions import Fraction

import astropy.units as u
import numpy as np
import z3

import pulsarbat as pb
from pbsym import core as K
from pbsym.modes import EPOCH, Raised, SigView, cterm
from pbsym.runner import Unit
from pbsym.stubs import standard_patches
from pbsym.symnd import plain
from pbsym.tarr import SymTime

from .C01 import CLASSES, NMAX, data_checks, make_signal, slice_checks
from .common import (RV, cis, cmul, cneq, compare_signals, dft_terms, iterm, magnitude_bound, meta_checks, neq, rterm)

META = {
    "stubs": ["as C01 (slice stand-in, symbolic len, T-arrays, SymTime) and C03 (exact DFT, np proxy)",
              "int() in transforms keeps a symbolic integer symbolic (truncation as a term)"],
    "bounds": {"whole-sample": "N <= 2^62 symbolic, t and n any integers; three forms of t (count, duration, absolute Time); "
               "duration/Time forms at concrete sample rates (2.5 kHz, 400 MHz)",
               "fractional": "N in {2,4} quick, {1,2,3,4} thorough, sample shapes (), (2,); t real, n integer"},
    "assumptions": ["exact real arithmetic", "sample_rate > 0"],
    "outside": ["'up to time resolution' of the Time form (exact time here)", "fractional snippets for N not in the list"],
}

RATES = {"kHz": (2.5 * u.kHz, Fraction(1, 2500)), "MHz": (400 * u.MHz, Fraction(1, 400 * 10**6))}


class Whole(Unit):
    functions = ("pulsarbat.transforms.transforms:snippet", "pulsarbat.core:Signal._time_slice", "pulsarbat.core:Signal.__getitem__")
    witnesses = 2

    TUNITS = {"s": (u.s, Fraction(1)), "ms": (u.ms, Fraction(1000)), "us": (u.us, Fraction(10**6)), "min": (u.min, Fraction(1, 60))}

    def __init__(self, clsname, form, with_t0=True, rate="kHz", tunit="s"):
        self.clsname, self.form, self.with_t0, self.rate, self.tunit = clsname, form, with_t0, rate, tunit
        self.name = f"whole-{clsname}-{form}{'' if with_t0 else '-not0'}" + (f"-{rate}" if form != "count" else "") + \
                    (f"-{tunit}" if tunit != "s" else "")
        self.bounds = {"class": clsname, "t_given_as": form, "start_time": with_t0, "N<=": "2^62",
                       "sample_rate": "symbolic" if form == "count" else str(RATES[rate][0])}

    def build(self, S):
        N = S.int("N", 0, NMAX)
        if self.form == "count":
            sig, dt, t0v = make_signal(S, self.clsname, N, self.with_t0)
        else:
            cls, sshape, dtype = CLASSES[self.clsname]
            data = S.tarray("z", N, sshape, dtype)
            sr, dt = RATES[self.rate]
            t0v = None
            if self.with_t0:
                t0v = S.real("t0")
                S.assume(t0v > -10**6)
                S.assume(t0v < 10**6)
            kw = dict(sample_rate=sr, start_time=S.time(t0v))
            if issubclass(cls, pb.RadioSignal):
                kw.update(center_freq=1 * u.GHz)
                if not issubclass(cls, pb.BasebandSignal):
                    kw["chan_bw"] = 1 * u.MHz
            if cls is pb.DualPolarizationSignal:
                kw["pol_type"] = "linear"
            sig = cls(data, **kw)
        t = S.int("t")
        n = S.int("n")
        if self.form == "count":
            targ = t
        elif self.form == "duration":
            tu, tf = self.TUNITS[self.tunit]
            targ = S.quantity(t * (dt * tf) if S.symbolic else float(t * dt * tf), tu)
        else:
            if S.symbolic:
                base = t0v if t0v is not None else 0
                targ = SymTime(base + t * dt)
            else:
                base = sig.start_time if sig.start_time is not None else EPOCH
                targ = base + float(t * dt) * u.s
        return {"sig": sig, "N": N, "dt": dt, "t": t, "n": n, "targ": targ}

    def call(self, a):
        return pb.snippet(a["sig"], a["targ"], a["n"])

    def spec(self, S, a, out):
        N, t, n = iterm(a["N"]), iterm(a["t"]), iterm(a["n"])
        dt = rterm(a["dt"])
        must_raise = z3.Or(n < 0, t < 0, t + n > N)
        if self.form == "time" and not self.with_t0:
            must_raise = z3.BoolVal(True)
        if isinstance(out, Raised):
            return [("raises-only-when-out-of-range", z3.Not(must_raise)),
                    ("raises-ValueError", z3.BoolVal(out.cls is not ValueError))]
        vin, vo = SigView(a["sig"]), SigView(out)
        checks = [("must-raise", must_raise)]
        checks += slice_checks(S, vin, vo, t, n, 1, dt)
        checks += data_checks(S, vin, vo, t, n, 1)
        if vin.t0 is not None and vo.t0 is not None:
            # (slice_checks leaves the start time of an EMPTY slice open; a snippet of n = 0 samples still starts at t)
            checks.append(("start_time-of-empty-snippet", z3.And(n == 0, neq(S, vo.t0, vin.t0 + z3.ToReal(t) * dt, 1e-7))))
        return checks

    def witness_constraints(self, ctx):
        i = ctx.inputs
        return [i["N"] <= 24, i["t"] <= 30, i["t"] >= -30, i["n"] <= 30, i["n"] >= -30]

    def compare(self, S, args, out, CS, cargs, cout):
        return compare_signals(S, out, CS, cout, rtol=1e-9, time_tol=1e-7)

    def signature(self, label, values, detail):
        return f"snippet:whole:{label}"


class Frac(Unit):
    functions = ("pulsarbat.transforms.transforms:snippet", "pulsarbat.transforms.transforms:time_shift",
                 "pulsarbat.core:Signal._time_slice", "pulsarbat.core:Signal.__getitem__")
    witnesses = 1

    def patches(self):
        # int() concretises: the whole part of t (bounded) forks, everything after it has concrete indices
        return standard_patches(concretize_int=True)

    def __init__(self, N, sshape, cplx=True, with_t0=True):
        self.N, self.sshape, self.cplx, self.with_t0 = N, tuple(sshape), cplx, with_t0
        self.name = f"frac-N{N}-s{'x'.join(map(str, sshape)) or '0'}-{'c' if cplx else 'r'}{'' if with_t0 else '-not0'}"
        self.bounds = {"N": N, "sample_shape": list(sshape), "complex": cplx, "start_time": with_t0, "t": "any real", "n": "any integer"}

    def build(self, S):
        N = self.N
        shape = (N,) + self.sshape
        z = S.carray("z", shape) if self.cplx else S.rarray("z", shape)
        dt = S.real("dt")
        S.assume(dt > Fraction(1, 10**9))
        S.assume(dt < 1000)
        t0v = None
        if self.with_t0:
            t0v = S.real("t0")
            S.assume(t0v > -10**6)
            S.assume(t0v < 10**6)
        sig = pb.Signal(z, sample_rate=S.quantity(1 / dt, u.Hz), start_time=S.time(t0v))
        t = S.real("t")
        S.assume(t > -2)
        S.assume(t < N + 2)
        n = S.int("n", -2, N + 2)
        # time_shift treats |shift| <= 1e-8 as "no shift" (numpy.allclose); that tolerance band is outside the claim
        tt = rterm(t)
        fr = tt - z3.ToReal(z3.ToInt(tt))
        S.assume(z3.Or(fr == 0, fr > RV(Fraction(1, 10**6))))
        return {"sig": sig, "z": z, "dt": dt, "t": t, "n": n}

    def call(self, a):
        return pb.snippet(a["sig"], a["t"], a["n"])

    def spec(self, S, a, out):
        N = self.N
        t, n = rterm(a["t"]), iterm(a["n"])
        dt = rterm(a["dt"])
        must_raise = z3.Or(n < 0, t < 0, t + z3.ToReal(n) > N)
        if isinstance(out, Raised):
            return [("raises-only-when-out-of-range", z3.Not(must_raise)),
                    ("raises-ValueError", z3.BoolVal(out.cls is not ValueError))]
        vin, vo = SigView(a["sig"]), SigView(out)
        checks = [("must-raise", must_raise), ("length", vo.length != n)]
        checks += meta_checks(S, vin, vo, what=("cls", "sr"))
        checks.append(("dtype", z3.BoolVal(vo.dtype != vin.dtype)))
        if vin.t0 is None:
            checks.append(("start_time", z3.BoolVal(vo.t0 is not None)))
        elif vo.t0 is None:
            checks.append(("start_time", z3.BoolVal(True)))
        else:
            checks.append(("start_time", z3.And(n > 0, neq(S, vo.t0, vin.t0 + t * dt, 1e-7))))
        nout = vo.nlen
        if nout == 0:
            return checks
        z = plain(a["z"]) if S.symbolic else a["z"]
        mag = magnitude_bound(S, a["z"])
        tol = 3e-5 * mag * max(1, N)
        i = S.concretize(z3.ToInt(t))             # whole part (t >= 0 on this path)
        whole = S.decide(z3.ToReal(z3.IntVal(i)) == t)
        for ix in np.ndindex(*self.sshape):
            col = [cterm(z[(m,) + ix]) for m in range(N)]
            bad = []
            if whole:
                for k in range(nout):
                    bad.append(cneq(S, vo.elem(k, ix), col[i + k] if i + k < N else (z3.RealVal(0), z3.RealVal(0)), tol))
            else:
                X = dft_terms(col)
                fr = t - i
                variants = []
                nyq = [None] if N % 2 or N == 0 else [N // 2, -(N // 2)]
                for ny in nyq:
                    Yk = []
                    for b in range(N):
                        kk = b if b < (N + 1) // 2 else b - N
                        if ny is not None and b == N // 2:
                            kk = ny
                        Yk.append(cmul(X[b], cis(S, fr * RV(kk) / N)))
                    variants.append(dft_terms(Yk, inverse=True))      # value of z at m + fr for m = 0..N-1
                for k in range(nout):
                    o = vo.elem(k, ix)
                    alts = []
                    for Y in variants:
                        y = Y[i + k] if i + k < N else (z3.RealVal(0), z3.RealVal(0))
                        if not self.cplx:
                            y = (y[0], z3.RealVal(0))
                        alts.append(cneq(S, o, y, tol))
                    bad.append(z3.And(alts))
            checks.append((f"elem{list(ix)}", z3.Or(bad) if bad else z3.BoolVal(False)))
        return checks

    def compare(self, S, args, out, CS, cargs, cout):
        return compare_signals(S, out, CS, cout, rtol=3e-5, time_tol=1e-7)

    def signature(self, label, values, detail):
        return f"snippet:frac:{label.split('[')[0]}"


def units(tier):
    us = []
    classes = list(CLASSES)
    for i, cn in enumerate(classes):
        us.append(Whole(cn, "count", with_t0=(i % 2 == 0)))
        if tier != "quick" or i % 2 == 0:
            us.append(Whole(cn, "duration", with_t0=True, rate=("kHz", "MHz")[i % 2]))
            us.append(Whole(cn, "time", with_t0=True, rate=("MHz", "kHz")[i % 2]))
    us.append(Whole("Signal", "duration", rate="kHz", tunit="ms"))
    us.append(Whole("BasebandSignal", "duration", rate="MHz", tunit="us"))
    us.append(Whole("RadioSignal", "duration", rate="kHz", tunit="min"))
    us.append(Whole("Signal", "time", with_t0=False))
    us.append(Whole("BasebandSignal", "duration", with_t0=False, rate="MHz"))
    for N in ((2, 4) if tier == "quick" else (1, 2, 3, 4)):
        us.append(Frac(N, (), cplx=True))
        us.append(Frac(N, (2,), cplx=(N % 2 == 1), with_t0=(N != 2)))
    return us
