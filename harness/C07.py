"""C07 - Phase arithmetic keeps two-double precision for every operand kind (exact-real part: structure, dispatch, normalisation)."""
import itertools
import math
from fractions import Fraction

import astropy.units as u
import numpy as np
import z3
from astropy.coordinates import Angle

import pulsarbat as pb
import pulsarbat.pulsar.phase as P
from pbsym import core as K
from pbsym.core import SComplex, SInt, SReal
from pbsym.modes import Raised, term_of_number
from pbsym.runner import Unit
from pbsym.stubs import NPProxy, UProxy, any_shadow
from pbsym.symnd import SymND, plain

from .C15 import OBJ_DTYPE, mkphase
from .common import RV, neq, rterm, zabs

META = {
    "stubs": ["Phase._phase_dtype replaced by object fields so a Phase can hold exact-real shadow values; numpy/astropy.units proxies in "
              "pulsarbat.pulsar.phase; Angle(...) inside phase.py keeps dtype=object for shadow values (astropy would cast to float)",
              "astropy's two_sum/two_product run unchanged on exact reals (their error terms are exactly zero there)",
              "sin/cos/tan of a shadow real are uninterpreted functions of the radian argument"],
    "bounds": {"operations": "construction from one or two numbers, + - (both orders), unary - + abs, * / by real or purely imaginary factors "
               "(both orders for *), floor-division / remainder / divmod by an angle, sin/cos of a phase, exp of an imaginary phase",
               "operand kinds": "Phase, Python-number stand-in (scalar), 0-d and 1-d (length 2) arrays, dimensionless Quantity, Angle/Quantity in cycles; "
               "real and imaginary phases; scalar and length-2 phases", "values": "any count (integer) and fraction in [-1/2, 1/2]; factors any real"},
    "assumptions": ["EXACT REAL semantics: this part decides dispatch, result type (never silently an Angle), sign/i*i bookkeeping, "
                    "normalisation (integer count, |frac| <= 1/2) and the value of the result in exact arithmetic"],
    "outside": ["the 2^-52 accuracy of the two-double chains at float64: not decidable with the solvers available (day_frac at a 10-bit float "
                "format already takes minutes; see DESIGN.md section 5) - this check can therefore not see precision loss except through the result type"],
}


class SymAngle(Angle):
    """Angle whose constructor keeps shadow values (dtype=object) instead of casting them to float"""

    def __new__(cls, angle, unit=None, dtype=None, copy=True, **kw):
        if any_shadow(angle) or (isinstance(angle, u.Quantity) and angle.dtype == object):
            if isinstance(angle, SymND):
                angle = plain(angle)
            # (Angle would iterate over an object array element by element; go through Quantity, which keeps it whole)
            return u.Quantity(angle, unit, dtype=object).view(Angle)
        return Angle.__new__(Angle, angle, unit, dtype=dtype, copy=copy, **kw)


def phase_patches():
    return [(P.Phase, "_phase_dtype", OBJ_DTYPE), (P, "np", NPProxy()), (P, "u", UProxy()), (P, "Angle", SymAngle)]


def parts(S, r):
    """lists of (int term, frac term) of a Phase result"""
    v = r.view(np.ndarray)
    ii = np.atleast_1d(np.asarray(v["int"], dtype=object)).ravel()
    ff = np.atleast_1d(np.asarray(v["frac"], dtype=object)).ravel()
    return [(term_of_number(a), term_of_number(b)) for a, b in zip(ii, ff)]


def mk_phase(S, name, shape, imaginary=False):
    n = int(np.prod(shape)) if shape else 1
    ints, fracs, vals = [], [], []
    for k in range(n):
        i = S.int(f"{name}i{k}", -2**52, 2**52)
        f = S.real(f"{name}f{k}")
        S.assume(f >= Fraction(-1, 2))
        S.assume(f <= Fraction(1, 2))
        if S.symbolic:
            ints.append(SReal(z3.ToReal(i.e)))
        else:
            ints.append(float(i))
        fracs.append(f)
        vals.append(rterm(i) + rterm(f))
    if shape:
        p = mkphase(np.array(ints, dtype=object).reshape(shape) if S.symbolic else np.array(ints).reshape(shape),
                    np.array(fracs, dtype=object).reshape(shape) if S.symbolic else np.array(fracs).reshape(shape), imaginary)
    else:
        p = mkphase(ints[0], fracs[0], imaginary)
    return p, vals


def mk_number(S, name, kind, lo=None, nonzero=False):
    """an operand of the given kind and the list of its exact element values"""
    def one(nm):
        w = S.real(nm)
        S.assume(w > -1000)
        S.assume(w < 1000)
        if lo is not None:
            S.assume(w > lo)
        if nonzero:
            S.assume(z3.Or(rterm(w) > Fraction(1, 100), rterm(w) < Fraction(-1, 100)))
        return w
    if kind in ("scalar", "npscalar", "quantity-one", "quantity-cycle", "angle", "imag"):
        w = one(name)
        t = [rterm(w)]
        if kind == "scalar":
            return w, t
        if kind == "npscalar":
            return (w if S.symbolic else np.float64(w)), t
        if kind == "quantity-one":
            return S.quantity(w, u.one), t
        if kind == "quantity-cycle":
            return S.quantity(w, u.cycle), t
        if kind == "angle":
            return (SymAngle(w, u.cycle) if S.symbolic else Angle(w, u.cycle)), t
        if kind == "imag":
            return (SComplex(z3.RealVal(0), w.e) if S.symbolic else complex(0, w)), t
    if kind == "arr0":
        w = one(name)
        return (np.array(w, dtype=object) if S.symbolic else np.array(w)), [rterm(w)]
    if kind == "arr1":
        ws = [one(f"{name}{k}") for k in range(2)]
        return (np.array(ws, dtype=object) if S.symbolic else np.array(ws)), [rterm(w) for w in ws]
    raise ValueError(kind)


def bc(a, b):
    """broadcast two element lists (length 1 or 2)"""
    n = max(len(a), len(b))
    return [(a[i % len(a)], b[i % len(b)]) for i in range(n)]


def rem_identity_bad(xv, yv, rv_):
    """dividend xv, divisor yv > 0, remainder rv_ (exact rationals): xv = k*yv + rv_ for an integer k to 2^-52, 0 <= rv_ < yv"""
    tol = Fraction(1, 2**52)
    if abs(xv) > 2**52 or yv <= 0:
        return False
    k = round((xv - rv_) / yv)
    return abs(xv - rv_ - k * yv) > tol or rv_ < -tol or rv_ >= yv + tol


def conc_tol(v, tag=""):
    """tolerance of CONCRETE runs (replays and witness validation on the real float code): the property's 2^-52 cycles absolute
    for results up to 2^52 (the operands are the exact rationals of the floats used, so this is the accuracy claim itself, on the
    inputs tried); the remainder of // % and larger results keep a relative 1e-9"""
    if tag == "" and abs(v) <= 2**52:
        return Fraction(1, 2**52)
    return Fraction(1, 10**9) * (1 + abs(v))


_HARD_I = [12345, 2**40 + 12345, -(2**45) + 7, 3]
_HARD_F = [Fraction(3, 10), Fraction(-41, 100), Fraction(1, 7), Fraction(-49999, 100000)]
_HARD_W = [Fraction(999), Fraction(37), Fraction(7, 10), Fraction(-3, 2), Fraction(1, 3), Fraction(-857)]        # (|w| < 1000 in the units)


class Arith(Unit):
    functions = ("pulsarbat.pulsar.phase:Phase.__new__", "pulsarbat.pulsar.phase:Phase.from_angles", "pulsarbat.pulsar.phase:day_frac",
                 "pulsarbat.pulsar.phase:Phase.__array_ufunc__", "pulsarbat.pulsar.phase:check_imaginary", "pulsarbat.pulsar.phase:Phase.__getitem__")
    witnesses = 1
    query_timeout_ms = 60000

    def __init__(self, op, kind, shape=(), reflected=False, imaginary=False):
        self.op, self.kind, self.shape, self.reflected, self.imaginary = op, kind, tuple(shape), reflected, imaginary
        self.name = f"{op}-{kind}-{'x'.join(map(str, shape)) or 's'}{'-r' if reflected else ''}{'-imag' if imaginary else ''}"
        self.bounds = {"operation": op, "other_operand": kind, "phase_shape": list(shape), "reflected": reflected, "imaginary_phase": imaginary}

    def patches(self):
        return phase_patches()

    def build(self, S):
        op = self.op
        a = {}
        if op in ("ctor1", "ctor2"):
            a["x"], a["xv"] = mk_number(S, "x", self.kind)
            if op == "ctor2":
                a["y"], a["yv"] = mk_number(S, "y", "scalar" if self.kind in ("scalar", "npscalar") else self.kind)
            return a
        a["p"], a["pv"] = mk_phase(S, "p", self.shape, self.imaginary)
        if op in ("add", "sub"):
            if self.kind == "phase":
                a["q"], a["qv"] = mk_phase(S, "q", (), self.imaginary)
            else:
                a["q"], a["qv"] = mk_number(S, "w", self.kind)
        elif op in ("mul", "div"):
            a["q"], a["qv"] = mk_number(S, "w", self.kind, nonzero=(op == "div"))
        elif op in ("floordiv", "mod", "divmod"):
            if self.kind == "phase":
                a["q"], a["qv"] = mk_phase(S, "q", (), False)
                S.assume(a["qv"][0] > Fraction(1, 10))
                S.assume(a["qv"][0] < 1000)
            else:
                a["q"], a["qv"] = mk_number(S, "w", self.kind, lo=Fraction(1, 10))
            if self.reflected:
                # the Phase is the divisor: keep it positive and moderate like the other divisors
                S.assume(a["pv"][0] > Fraction(1, 10))
                S.assume(a["pv"][0] < 1000)
        return a

    def call(self, a):
        op = self.op
        if op == "ctor1":
            return P.Phase(a["x"])
        if op == "ctor2":
            return P.Phase(a["x"], a["y"])
        p = a["p"]
        q = a.get("q")
        if op == "add":
            return (q + p) if self.reflected else (p + q)
        if op == "sub":
            return (q - p) if self.reflected else (p - q)
        if op == "mul":
            return (q * p) if self.reflected else (p * q)
        if op == "div":
            return p / q
        if op == "neg":
            return -p
        if op == "pos":
            return +p
        if op == "abs":
            return abs(p)
        if op == "floordiv":
            return (q // p) if self.reflected else (p // q)
        if op == "mod":
            return (q % p) if self.reflected else (p % q)
        if op == "divmod":
            return divmod(q, p) if self.reflected else divmod(p, q)
        if op in ("sin", "cos"):
            return getattr(np, op)(p)
        raise ValueError(op)

    def _phase_checks(self, S, r, want, imag, tag=""):
        """r must be a normalised Phase whose exact value equals want (list of terms)"""
        if not isinstance(r, P.Phase):
            return [(tag + "result-is-a-Phase", z3.BoolVal(True))]
        checks = [(tag + "imaginary-flag", z3.BoolVal(bool(r.imaginary) != bool(imag)))]
        pr = parts(S, r)
        if len(pr) != len(want):
            return checks + [(tag + "shape", z3.BoolVal(True))]
        bad_i, bad_f, bad_v = [], [], []
        for (ri, rf), w in zip(pr, want):
            if S.symbolic:
                bad_i.append(z3.Not(z3.IsInt(ri)))
                bad_f.append(z3.Or(rf > RV(Fraction(1, 2)), rf < RV(Fraction(-1, 2))))
                bad_v.append(ri + rf != w)
            else:
                ev = lambda t: K.evalz(t, S.env, S.ufs)
                bad_i.append(z3.BoolVal(Fraction(ev(ri)).denominator != 1))
                bad_f.append(z3.BoolVal(abs(ev(rf)) > Fraction(1, 2)))
                wv = ev(w)
                bad_v.append(z3.BoolVal(abs(ev(ri) + ev(rf) - wv) > conc_tol(wv, tag)))
        checks.append((tag + "count-is-integer", z3.Or(bad_i)))
        checks.append((tag + "fraction-within-half", z3.Or(bad_f)))
        checks.append((tag + "value", z3.Or(bad_v)))
        return checks

    def spec(self, S, a, out):
        if isinstance(out, Raised):
            return [("no-exception", z3.BoolVal(True))]
        op = self.op
        im = self.imaginary
        if op == "ctor1":
            return self._phase_checks(S, out, a["xv"], False)
        if op == "ctor2":
            return self._phase_checks(S, out, [x + y for x, y in bc(a["xv"], a["yv"])], False)
        pv = a["pv"]
        if op in ("add", "sub"):
            qv = a["qv"]
            if op == "add":
                want = [x + y for x, y in bc(pv, qv)]
            else:
                want = [(y - x) if self.reflected else (x - y) for x, y in bc(pv, qv)]
            return self._phase_checks(S, out, want, im)
        if op == "mul":
            if self.kind == "imag":
                want = [(-x * y) if im else (x * y) for x, y in bc(pv, a["qv"])]       # i*i = -1
                return self._phase_checks(S, out, want, not im)
            return self._phase_checks(S, out, [x * y for x, y in bc(pv, a["qv"])], im)
        if op == "div":
            if self.kind == "imag":
                want = [(x / y) if im else (-x / y) for x, y in bc(pv, a["qv"])]       # 1/i = -i ; i/i = 1
                return self._phase_checks(S, out, want, not im)
            return self._phase_checks(S, out, [x / y for x, y in bc(pv, a["qv"])], im)
        if op == "neg":
            return self._phase_checks(S, out, [-x for x in pv], im)
        if op == "pos":
            return self._phase_checks(S, out, pv, im)
        if op == "abs":
            return self._phase_checks(S, out, [zabs(x) for x in pv], False)       # |i*x| = |x| is real
        if op in ("floordiv", "mod", "divmod"):
            w = a["qv"]
            pairs = [(y, x) for x, y in bc(pv, w)] if self.reflected else bc(pv, w)          # (dividend, divisor)
            fdw = [z3.ToReal(z3.ToInt(x / y)) for x, y in pairs]
            remw = [x - y * f for (x, y), f in zip(pairs, fdw)]
            checks = []
            if op in ("floordiv", "divmod"):
                fd = out[0] if op == "divmod" else out
                fv = fd.to_value(u.one) if isinstance(fd, u.Quantity) else fd
                fl = [term_of_number(e) for e in np.atleast_1d(np.asarray(plain(fv), dtype=object)).ravel()]
                checks.append(("floor-quotient", z3.Or([z3.BoolVal(len(fl) != len(fdw))] + [neq(S, x, y, 1e-9) for x, y in zip(fl, fdw)])))
            if op in ("mod", "divmod"):
                rem = out[1] if op == "divmod" else out
                checks += self._phase_checks(S, rem, remw, False, "remainder:")
                if not S.symbolic and isinstance(rem, P.Phase):
                    # concrete runs (replays, witness validation), at the property's accuracy: dividend = k*divisor + remainder
                    # for an integer k to within 2^-52 cycles, and 0 <= remainder < divisor.  (Which k the float code picks when
                    # the quotient is within rounding of an integer is not prescribed; that the pair is consistent to two-double
                    # accuracy is.)
                    ev = lambda t: Fraction(K.evalz(t, S.env, S.ufs))
                    bad = [rem_identity_bad(ev(x), ev(y), ev(ri) + ev(rf)) for (x, y), (ri, rf) in zip(pairs, parts(S, rem))]
                    checks.append(("remainder:two-double-accuracy", z3.BoolVal(any(bad))))
            return checks
        if op in ("sin", "cos"):
            # depends on the fractional part only: f(2*pi*frac)
            vals = np.atleast_1d(np.asarray(plain(out.value if isinstance(out, u.Quantity) else out), dtype=object)).ravel()
            v = a["p"].view(np.ndarray)
            fr = [term_of_number(x) for x in np.atleast_1d(np.asarray(v["frac"], dtype=object)).ravel()]
            bad = []
            for got, f in zip(vals, fr):
                if S.symbolic:
                    S.ctx.use_const("pi")
                    uf = K.UF_SIN if op == "sin" else K.UF_COS
                    bad.append(term_of_number(got) != uf(2 * K.PI * f))
                else:
                    fv = float(K.evalz(f, S.env))
                    bad.append(z3.BoolVal(abs(float(got) - getattr(math, op)(2 * math.pi * fv)) > 1e-9))
            return [("uses-fraction-only", z3.Or(bad) if bad else z3.BoolVal(True))]
        return []

    def witness_constraints(self, ctx):
        return [z3.And(c <= 1000, c >= -1000) for n, c in ctx.inputs.items() if c.sort() == z3.IntSort()]

    def witness_candidates(self, ctx):
        # float-only corner of // % divmod: count + frac rounds across a multiple of the divisor, so the real code's correction
        # pass runs (in exact arithmetic it never does); the real result must still agree with the exact one
        if self.op in ("floordiv", "mod", "divmod") and self.shape == ():
            return [{"pi0": 2**40, "pf0": Fraction(-1, 10**20), "w": Fraction(2)}, {"pi0": 3 * 2**30, "pf0": Fraction(-1, 10**18), "w": Fraction(3)},
                    {"pi0": -(2**35), "pf0": Fraction(1, 10**19), "w": Fraction(4)}, {"pi0": 2**40, "pf0": Fraction(-1, 10**20), "w": Fraction(1)},
                    # divisors for which quotient x divisor is inexact in one double
                    {"pi0": 10**6, "pf0": Fraction(3, 10), "w": Fraction(7, 10)}, {"pi0": 123456789, "pf0": Fraction(1, 4), "w": Fraction(1, 10)},
                    {"pi0": -(10**9) + 7, "pf0": Fraction(-41, 100), "w": Fraction(1, 3)}, {"pi0": 2**40 + 12345, "pf0": Fraction(1, 7), "w": Fraction(37, 10)}]
        if self.op in ("floordiv", "mod", "divmod", "sin", "cos"):
            return []
        # precision corner of the two-double chains: large counts, non-dyadic fractions, factors that are not powers of two.  The real
        # float code must agree with the exact result to 2^-52 cycles on these inputs (concrete validation - sampling, not a proof)
        out = []
        for r in range(6):
            cand = {}
            for j, n in enumerate(sorted(ctx.inputs)):
                c = ctx.inputs[n]
                if c.sort() == z3.IntSort():
                    cand[n] = _HARD_I[(r + j) % len(_HARD_I)]
                elif n[1:2] == "f" and n[0] in "pq":
                    cand[n] = _HARD_F[(r + j) % len(_HARD_F)]
                else:
                    cand[n] = _HARD_W[(r + 2 * j) % len(_HARD_W)]
            out.append(cand)
        return out

    def compare(self, S, args, out, CS, cargs, cout):
        a, b = isinstance(out, Raised), isinstance(cout, Raised)
        if a or b:
            return [] if (a and b and out.cls is cout.cls) else [f"outcome differs: {out!r} vs {cout!r}"]
        def first(x):
            return x[1] if isinstance(x, tuple) else x
        so, co = first(out), first(cout)
        if self.op in ("mod", "divmod") and isinstance(co, P.Phase) and co.shape == () and self.shape == ():
            # the real remainder must be a two-double-accurate remainder of the operands actually used
            ev = lambda t: Fraction(K.evalz(t, CS.env, CS.ufs))
            pv, qv = args["pv"][0], args["qv"][0]
            xv, yv = (ev(qv), ev(pv)) if self.reflected else (ev(pv), ev(qv))
            c = co.view(np.ndarray)
            if rem_identity_bad(xv, yv, Fraction(float(c["int"])) + Fraction(float(c["frac"]))):
                return ["remainder of the real code is not accurate to 2^-52 cycles"]
        if type(so).__name__ != type(co).__name__:
            return [f"result type differs: {type(so).__name__} vs {type(co).__name__}"]
        if isinstance(so, P.Phase):
            ps = parts(S, so)
            pc = co.view(np.ndarray)
            ci = np.atleast_1d(pc["int"]).ravel()
            cf = np.atleast_1d(pc["frac"]).ravel()
            pr = []
            for (ri, rf), x, y in zip(ps, ci, cf):
                sv = K.evalz(ri, CS.env, CS.ufs) + K.evalz(rf, CS.env, CS.ufs)
                cv = Fraction(float(x)) + Fraction(float(y))
                if abs(sv - cv) > conc_tol(cv, "" if self.op not in ("floordiv", "mod", "divmod") else "remainder:"):
                    pr.append(f"value {float(sv)} vs {float(cv)}")
            return pr
        return []

    def signature(self, label, values, detail):
        return f"phase-arith:{self.op}:{label}"


def units(tier):
    us = []
    kinds_add = ["phase", "scalar", "arr0", "arr1", "quantity-cycle", "angle"]
    kinds_mul = ["scalar", "arr0", "arr1", "quantity-one", "imag"]
    for k in ("scalar", "arr0", "arr1", "quantity-cycle", "angle"):
        us.append(Arith("ctor1", k))
        if k != "arr1" or tier != "quick":
            us.append(Arith("ctor2", k))
    for k in kinds_add:
        for op in ("add", "sub"):
            us.append(Arith(op, k))
            if k != "phase":
                us.append(Arith(op, k, reflected=True))
        if tier != "quick" or k in ("phase", "scalar"):
            us.append(Arith("add", k, shape=(2,)))
            us.append(Arith("sub", k, shape=(2,), reflected=(k != "phase")))
    us.append(Arith("add", "phase", imaginary=True))
    for k in kinds_mul:
        us.append(Arith("mul", k))
        us.append(Arith("mul", k, reflected=True))
        us.append(Arith("div", k))
        us.append(Arith("mul", k, imaginary=True))
        us.append(Arith("div", k, imaginary=True))
        if tier != "quick" or k in ("scalar", "imag"):
            us.append(Arith("mul", k, shape=(2,)))
    for op in ("neg", "pos", "abs"):
        us.append(Arith(op, "none"))
        us.append(Arith(op, "none", shape=(2,)))
        us.append(Arith(op, "none", imaginary=True))
    for op in ("floordiv", "mod", "divmod"):
        us.append(Arith(op, "quantity-cycle"))
        us.append(Arith(op, "angle"))
        us.append(Arith(op, "phase"))                                 # Phase divided by a Phase
        us.append(Arith(op, "angle" if op != "mod" else "quantity-cycle", reflected=True))      # an angle divided by a Phase
    for op in ("sin", "cos"):
        us.append(Arith(op, "none"))
        us.append(Arith(op, "none", shape=(2,)))
    return us
