"""C08, parsing: the REAL from_polyco runs on a polyco text whose layout (number of entries, NCOEFF, span) is concrete and whose
numbers (TMID, RPHASE integer and decimals, F0, every coefficient) are symbolic, then the real __call__ / f0 evaluate the parsed
table at a symbolic time.  Oracle: the tempo formula written directly on the symbolic numbers of the text."""
import builtins
from fractions import Fraction

import astropy.units as u
import numpy as np
import z3

import pulsarbat as pb
import pulsarbat.pulsar.phase as P
import pulsarbat.pulsar.predictor as PR
from pbsym import core as K
from pbsym import sstr
from pbsym.core import SInt, SReal
from pbsym.modes import EPOCH, Raised, term_of_number
from pbsym.runner import Unit
from pbsym.stubs import NPProxy, sym_int
from pbsym.symnd import SymND
from pbsym.tarr import SymTime

from .C07 import parts
from .C08 import StandIn, TimeVec, pred_patches, sec_of
from .common import RV, ratfun_of, rterm, zabs

EP_MJD = Fraction(59277) + Fraction(5 * 3600 + 6 * 60 + 7, 86400)       # MJD of pbsym's time origin (2021-03-04T05:06:07 UTC)


class NumTok(str):
    """a numeric token of the text whose value is a shadow real (the characters are never looked at: float()/Time() take it whole)"""
    def __new__(cls, val, text="?"):
        s = str.__new__(cls, text)
        s.val = val
        return s


class Line:
    def __init__(self, toks):
        self.toks = list(toks)

    def split(self, *a):
        return list(self.toks)

    def translate(self, table):
        return self            # (D -> e in exponents: no effect on tokens that carry their value)

    def __bool__(self):
        return True


class Stream:
    def __init__(self, lines):
        self.lines, self.i = list(lines), 0

    def readline(self):
        if self.i >= len(self.lines):
            return ""
        self.i += 1
        return self.lines[self.i - 1]

    def __enter__(self):
        return self

    def __exit__(self, *a):
        return False


def tok_float(x=0.0):
    if isinstance(x, NumTok):
        return x.val
    return sstr.sym_float(x)


def tok_time(val, format=None, precision=None, **k):
    if isinstance(val, NumTok):
        if format != "mjd":
            raise K.Unsupported("symbolic time token with a format other than mjd")
        return SymTime((K._toreal(val.val.e) - K.realval(EP_MJD)) * 86400)
    return SymTime(val, format=format, precision=precision, **k)


class ParseNP(NPProxy):
    def array(self, x, *a, **k):
        if isinstance(x, list) and x and all(isinstance(t, NumTok) for t in x):
            arr = np.empty(len(x), dtype=object)
            for i, t in enumerate(x):
                arr[i] = t.val
            return SymND(arr)
        return NPProxy.array(self, x, *a, **k)

    def int64(self, x):
        if isinstance(x, sstr.SStr):
            cells = list(x.cells)
            while len(cells) > 1 and cells[0] == "0":
                cells.pop(0)
            if len(cells) == 1 and isinstance(cells[0], tuple) and cells[0][0] == "I":
                return SInt(sstr._cell_term(cells[0]))
            v = sstr.value_of_cells(cells)
            if v is None or v["dot"]:
                raise ValueError(f"invalid literal for int() with base 10: {x!r}")
            return SInt(z3.ToInt(v["value"]))
        return np.int64(x)


class Capture:
    """stands for `cls` in from_polyco: keeps the entries in the order PhasePredictor.__init__ puts them (sorted by tmid)"""
    def __new__(cls, table):
        ents = sorted(table, key=lambda e: e.tmid)         # PhasePredictor.__init__: sorted(data, key=itemgetter("tmid"))
        me = StandIn({"tmid": TimeVec([e.tmid for e in ents]), "span": u.Quantity([e.span.to_value(u.min) for e in ents], u.min),
                      "rphase": np.array([e.rphase for e in ents], dtype=object), "poly": [e.poly for e in ents]})
        me.order = [table.index(e) for e in ents]
        return me


def parse_patches():
    return pred_patches() + [(PR, "np", ParseNP()), (PR, "float", tok_float), (PR, "Time", tok_time), (PR, "int", sym_int)]


class ParseEval(Unit):
    functions = ("pulsarbat.pulsar.predictor:PhasePredictor.from_polyco", "pulsarbat.pulsar.predictor:PhasePredictor._get_index_and_dt",
                 "pulsarbat.pulsar.predictor:PhasePredictor.__call__", "pulsarbat.pulsar.predictor:PhasePredictor.f0",
                 "pulsarbat.pulsar.predictor:PhasePredictor.intervals")
    witnesses = 2
    max_paths = 4000

    def __init__(self, nent, ncoeff, what, span=60):
        self.nent, self.ncoeff, self.what, self.span = nent, ncoeff, what, span
        self.name = f"parse-{nent}x{ncoeff}-span{span}-{what}"
        self.bounds = {"entries": nent, "NCOEFF": ncoeff, "span_min": span, "method": what,
                       "numbers": "TMID any real MJD within +-3 days of the epoch (concrete replays: nearest 11-decimal MJD), RPHASE integer 0..1e12 with six symbolic decimals, 0 < F0 < 1000, "
                                  "|COEFF(j)|*(span/2)^(j-1) < 1e6, all symbolic", "time": "symbolic, within 2 h of the spans"}

    def patches(self):
        return parse_patches()

    # numbers of the text
    def build(self, S):
        S.time_eps(RV(Fraction(4, 10**11)))
        ents = []
        for k in range(self.nent):
            # TMID as the text holds it: a decimal MJD with eleven decimals, i.e. an integer number of 1e-11 days
            # (symbolic runs let it be any real - a superset, which keeps the nonlinear queries free of integer variables;
            #  concrete runs snap it to the nearest such decimal, which is what the generated text then holds exactly)
            base = int(EP_MJD * 10**11)
            Kk = S.real(f"tmidK{k}")
            S.assume(Kk > base - 3 * 10**11)
            S.assume(Kk < base + 3 * 10**11)
            if not S.symbolic:
                Kk = Fraction(round(Fraction(Kk)))
            tm = (rterm(Kk) / RV(10**11) - RV(EP_MJD)) * 86400          # seconds from the epoch (z3 term)
            R = S.int(f"R{k}", 0, 10**12)
            digs = [S.int(f"r{k}d{j}", 0, 9) for j in range(6)]
            f0 = S.real(f"f0_{k}")
            S.assume(f0 > 0)
            S.assume(f0 < 1000)
            cs = []
            for j in range(self.ncoeff):
                c = S.real(f"c{k}_{j}")
                # |COEFF(j+1)| * (span/2)^j <= 1e6 cycles: each term of the polynomial stays below 1e6 cycles on the span
                b = Fraction(10**6) / Fraction(self.span, 2) ** j
                S.assume(c > -b)
                S.assume(c < b)
                cs.append(c)
            ents.append({"tm": tm, "K": Kk, "R": R, "digs": digs, "f0": f0, "cs": cs})
        for a, b in zip(ents, ents[1:]):
            S.assume(a["tm"] != b["tm"])
        t = S.real("t")
        S.assume(t > -3 * 86400 - 7200 - 60 * self.span)
        S.assume(t < 3 * 86400 + 7200 + 60 * self.span)
        return {"ents": ents, "t": t, "sym": S.symbolic}

    def _stream(self, a):
        lines = []
        for e in a["ents"]:
            mjd = SReal(e["K"].e / RV(10**11))
            rph = sstr.SStr((("I", e["R"].e), ".") + tuple(("d", d.e) for d in e["digs"]))
            lines.append(Line(["B1937+21", "7-May-18", "93600.00", NumTok(mjd), "71.020167", "0.000", "-6.0"]))
            lines.append(Line([rph, NumTok(e["f0"]), "ao", builtins.str(self.span), builtins.str(self.ncoeff), "327.000"]))
            for j in range(0, self.ncoeff, 3):
                lines.append(Line([NumTok(c) for c in e["cs"][j:j + 3]]))
        return Stream(lines)

    def _text(self, a):
        """the same text with concrete numbers, as a file (concrete replay)"""
        import io
        out = []
        for e in a["ents"]:
            Kv = int(e["K"])
            out.append(f"B1937+21    7-May-18   93600.00   {Kv // 10**11}.{Kv % 10**11:011d}   71.020167  0.000 -6.0")
            frac = "".join(builtins.str(int(d)) for d in e["digs"])
            out.append(f" {int(e['R'])}.{frac}  {float(e['f0'])!r}   ao  {self.span}   {self.ncoeff}   327.000")
            cs = [f"{float(c):.17e}".replace("e", "D") for c in e["cs"]]
            for j in range(0, self.ncoeff, 3):
                out.append("  " + " ".join(cs[j:j + 3]))
        return io.StringIO("\n".join(out) + "\n")

    def call(self, a):
        if a["sym"]:
            me = PR.PhasePredictor.from_polyco.__func__(Capture, self._stream(a))
            tt = SymTime(a["t"])
            a["me"] = me
            if self.what == "call":
                return PR.PhasePredictor.__call__(me, tt)
            return [PR.PhasePredictor.f0(me, tt, n) for n in (0, 1)]
        pp = pb.PhasePredictor.from_polyco(self._text(a))
        tt = EPOCH + a["t"] * u.s
        a["me"] = pp
        if self.what == "call":
            return pp(tt)
        return [pp.f0(tt, n) for n in (0, 1)]

    def _formula(self, e, dt_s, deriv=0):
        DT = dt_s / 60
        frac = z3.Sum([z3.ToReal(rterm_i(d)) * RV(Fraction(1, 10 ** (j + 1))) for j, d in enumerate(e["digs"])])
        cs = [rterm(c) for c in e["cs"]]
        poly = [z3.ToReal(rterm_i(e["R"])) + frac + cs[0], 60 * rterm(e["f0"]) + cs[1]] + cs[2:]
        for _ in range(deriv):
            poly = [k * c for k, c in enumerate(poly)][1:]
        acc = z3.RealVal(0)
        for c in reversed(poly):
            acc = acc * DT + c
        return acc / (RV(60) ** deriv)

    def spec(self, S, a, out):
        t = rterm(a["t"]) if S.symbolic else RV(sec_of(EPOCH + a["t"] * u.s))
        ents = a["ents"]
        half = RV(Fraction(30 * self.span))
        ms = RV(Fraction(1, 1000))
        sl = RV(0) if S.symbolic else RV(Fraction(1, 10**4))
        tms = [e["tm"] for e in ents]
        inside = [z3.And(t >= tm - half + sl, t <= tm + half - sl) for tm in tms]
        near = [z3.And(t >= tm - half - sl, t <= tm + half + sl) for tm in tms]
        inside_any = z3.Or(inside)
        if isinstance(out, Raised):
            return [("raises-only-outside-spans", inside_any), ("raises-ValueError", z3.BoolVal(out.cls is not ValueError))]
        # returned normally: inside a span or in a gap of at most 1 ms between two spans
        in_gap = z3.BoolVal(False)
        for i in range(len(tms)):
            for j in range(len(tms)):
                if i != j:
                    gap_lo, gap_hi = tms[i] + half, tms[j] - half
                    in_gap = z3.Or(in_gap, z3.And(gap_hi >= gap_lo, gap_hi - gap_lo <= ms + sl, t >= gap_lo - sl, t <= gap_hi + sl))
        checks = [("must-raise-outside-spans", z3.Not(z3.Or(z3.Or(near), in_gap)))]
        rel = RV(0) if S.symbolic else RV(Fraction(1, 10**9))
        if self.what == "call":
            if not isinstance(out, P.Phase):
                return checks + [("returns-Phase", z3.BoolVal(True))]
            (ri, rf), = parts(S, out)
            total = ri + rf
            k = self._chosen(S, a)
            if k is not None:
                # the real code picked entry k on this path: its span must contain t, and the value must be its tempo formula
                e, tm = ents[k], tms[k]
                checks.append(("entry-span-contains-t", z3.And(inside_any, z3.Or(t < tm - half - ms, t > tm + half + ms))))
                checks.append(("tempo-formula", z3.And(inside_any, z3.Not(_same(S, total, self._formula(e, t - tm), RV(Fraction(1, 10**8)))))))
                return checks
            alts = []
            for e, tm, ins in zip(ents, tms, inside):
                w = self._formula(e, t - tm)
                alts.append(z3.And(z3.And(t >= tm - half - ms - sl, t <= tm + half + ms + sl), _same(S, total, w, RV(Fraction(1, 10**8)))))
            checks.append(("tempo-formula-of-an-entry-whose-span-contains-t", z3.And(inside_any, z3.Not(z3.Or(alts)))))
        else:
            k = self._chosen(S, a)
            for n, q in enumerate(out):
                v = term_of_number(q.to_value(u.cycle / u.s ** (n + 1)))
                alts = []
                for e, tm in (zip(ents, tms) if k is None else [(ents[k], tms[k])]):
                    w = self._formula(e, t - tm, deriv=n + 1)
                    # 1e-12 of the largest value the derivative's terms can take under the input bounds (|term_j| <= 1e6 cycles on
                    # the span, F0 < 1000): float constants and Horner round-off are ~1e-16 of that scale
                    h_min = Fraction(self.span, 2)
                    scale = (1000 if n == 0 else 0) + sum(Fraction(10**6) * j * (j - 1 if n else 1) / (h_min * 60) ** (n + 1)
                                                           for j in range(1, self.ncoeff))
                    tol = RV(scale * Fraction(1, 10**12) + Fraction(1, 10**18))
                    alts.append(z3.And(z3.And(t >= tm - half - ms - sl, t <= tm + half + ms + sl), _same(S, v, w, tol)))
                checks.append((f"derivative-{n + 1}", z3.And(inside_any, z3.Not(z3.Or(alts)))))
        return checks

    def _chosen(self, S, a):
        """index (in text order) of the entry the real code selected on this symbolic path"""
        me = a.get("me")
        if not S.symbolic or getattr(me, "chosen", None) is None:
            return None
        return me.order[me.chosen]

    def compare(self, S, args, out, CS, cargs, cout):
        if isinstance(out, Raised) or isinstance(cout, Raised):
            same = isinstance(out, Raised) and isinstance(cout, Raised) and out.cls is cout.cls
            return [] if same else [f"outcomes differ: {out!r} vs {cout!r}"]
        if self.what == "call":
            (ri, rf), = parts(S, out)
            sym = K.evalz(ri + rf, CS.env, CS.ufs)
            v = cout.view(np.ndarray)
            real = Fraction(float(v["int"])) + Fraction(float(v["frac"]))
            return [] if abs(Fraction(sym) - real) <= Fraction(1, 10**6) + abs(real) * Fraction(1, 10**12) else [f"phase {float(sym)!r} vs {float(real)!r}"]
        pr = []
        for n, (q, cq) in enumerate(zip(out, cout)):
            sym = Fraction(K.evalz(term_of_number(q.to_value(u.cycle / u.s ** (n + 1))), CS.env, CS.ufs))
            real = Fraction(float(cq.to_value(u.cycle / u.s ** (n + 1))))
            if abs(sym - real) > abs(real) * Fraction(1, 10**7) + Fraction(1, 10**12):
                pr.append(f"f{n}: {float(sym)!r} vs {float(real)!r}")
        return pr

    def witness_constraints(self, ctx):
        # keep witnesses away from span edges, where the Time rounding of the real run decides the side
        t = ctx.inputs["t"]
        cons = []
        for k in range(self.nent):
            tm = (ctx.inputs[f"tmidK{k}"] / RV(10**11) - RV(EP_MJD)) * 86400
            for edge in (tm - 30 * self.span, tm + 30 * self.span):
                cons.append(z3.Or(t - edge > 1, edge - t > 1))
        return cons

    def signature(self, label, values, detail):
        return f"polyco-parse:{self.what}:{label}"


def rterm_r(x):
    """z3 Real term of an integer input (shadow or concrete)"""
    return z3.ToReal(x.e) if isinstance(x, SInt) else RV(int(x))


def rterm_i(x):
    """z3 Int term of an integer input (shadow or concrete)"""
    if isinstance(x, SInt):
        return x.e
    return z3.IntVal(int(x))


def _same(S, got, want, tol):
    """got equals want: exactly (polynomial identity, decided by normal form) in symbolic runs, within tol in concrete ones"""
    d = got - want
    if S.symbolic:
        # (the code's constants are floats - numpy's convert() scales by float(1/60) - so the identity holds to ~1e-16 relative,
        #  not exactly: the difference is put into polynomial normal form and bounded by the property's tolerance)
        r = ratfun_of(d)
        if r is not None:
            n, den, scale, names = r
            if not n:
                return z3.BoolVal(True)
            if set(den) == {()}:
                from .common import ratfun_term
                d = ratfun_term(n, names) * RV(scale / den[()])
    return z3.And(d <= tol, -d <= tol)


def units(tier):
    us = []
    layouts = [(1, 2, 60), (1, 4, 60)] if tier == "quick" else \
              [(1, 2, 60), (1, 3, 30), (1, 4, 60), (2, 2, 60), (2, 3, 60)]
    # (NCOEFF = 5: ~30 s alone but its degree-4 tolerance query went 'unknown' at the 60 s query limit on a loaded machine;
    #  NCOEFF = 6: does not finish in 400 s; 2x5, 1x7, 1x12 ran past 3000 s)
    for ne, nc, sp in layouts:
        for what in ("call", "f0"):
            u_ = ParseEval(ne, nc, what, span=sp)
            if tier != "quick":
                u_.budget_s = 3000          # (two entries: ~2000 paths - order of the entries x interval merging x Phase normalisation)
            us.append(u_)
    return us
