"""C15, comparisons across operand kinds and call forms (exact reals): Phase against Phase / angle / Quantity in cycles, through the
Python operators and through the NumPy ufuncs called directly in either operand order.  The float64 unit (Compare) decides the
precision of the Phase-Phase kernel; this one decides that every dispatch route compares the right operands the right way round."""
import operator
from fractions import Fraction

import numpy as np
import z3

import pulsarbat.pulsar.phase as P
from pbsym.core import SBool
from pbsym.modes import Raised
from pbsym.runner import Unit

from .C07 import mk_number, mk_phase, phase_patches

OPS = {"lt": (operator.lt, np.less), "le": (operator.le, np.less_equal), "gt": (operator.gt, np.greater), "ge": (operator.ge, np.greater_equal),
       "eq": (operator.eq, np.equal), "ne": (operator.ne, np.not_equal)}


class CompareKinds(Unit):
    functions = ("pulsarbat.pulsar.phase:Phase.__array_ufunc__", "pulsarbat.pulsar.phase:Phase.__eq__", "pulsarbat.pulsar.phase:Phase.__ne__",
                 "pulsarbat.pulsar.phase:Phase.__lt__", "pulsarbat.pulsar.phase:Phase.__new__", "pulsarbat.pulsar.phase:Phase.from_angles")
    witnesses = 1

    def __init__(self, op, kind, form, phase_first=True):
        self.op, self.kind, self.form, self.phase_first = op, kind, form, phase_first
        self.name = f"cmpkinds-{op}-{kind}-{form}-{'phase-first' if phase_first else 'phase-second'}"
        self.bounds = {"operator": op, "other_operand": kind, "call_form": form, "phase_is_first_operand": phase_first,
                       "values": "any count (integer) and fraction in [-1/2, 1/2]; other operand |w| < 1000", "arithmetic": "exact reals"}

    def patches(self):
        return phase_patches()

    def build(self, S):
        p, pv = mk_phase(S, "p", ())
        if self.kind == "phase":
            q, qv = mk_phase(S, "q", ())
        else:
            q, qv = mk_number(S, "w", self.kind)
        return {"p": p, "pv": pv[0], "q": q, "qv": qv[0]}

    def call(self, a):
        x, y = (a["p"], a["q"]) if self.phase_first else (a["q"], a["p"])
        f = OPS[self.op][0 if self.form == "operator" else 1]
        r = f(x, y)
        if isinstance(r, np.ndarray):
            r = r[()]
        return r

    def spec(self, S, a, out):
        if isinstance(out, Raised):
            return [("no-exception", z3.BoolVal(True))]
        xv, yv = (a["pv"], a["qv"]) if self.phase_first else (a["qv"], a["pv"])
        want = {"lt": xv < yv, "le": xv <= yv, "gt": xv > yv, "ge": xv >= yv, "eq": xv == yv, "ne": xv != yv}[self.op]
        if isinstance(out, SBool):
            got = out.e
        elif isinstance(out, (bool, np.bool_)):
            got = z3.BoolVal(bool(out))
        else:
            return [("returns-a-truth-value", z3.BoolVal(True))]
        return [("compares-exact-values-in-operand-order", got != want)]

    def compare(self, S, args, out, CS, cargs, cout):
        """the truth value of the symbolic run at the concrete inputs is the one the unpatched code returns"""
        from pbsym import core as K
        if isinstance(out, Raised) or isinstance(cout, Raised):
            return [] if (isinstance(out, Raised) and isinstance(cout, Raised)) else [f"outcomes differ: {out!r} vs {cout!r}"]
        sym = bool(K.evalz(out.e, CS.env, CS.ufs)) if isinstance(out, SBool) else bool(out)
        real = bool(cout[()] if isinstance(cout, np.ndarray) else cout)
        return [] if sym == real else [f"symbolic run says {sym}, real code {real}"]

    def signature(self, label, values, detail):
        return f"phase-compare-kinds:{self.form}:{label}"


def units(tier):
    us = []
    ops = ("lt", "ge", "eq") if tier == "quick" else tuple(OPS)
    for op in ops:
        us.append(CompareKinds(op, "phase", "ufunc"))
        for kind in (("angle", "quantity-cycle") if tier != "quick" else ("angle",)):
            for form in ("operator", "ufunc"):
                for first in (True, False):
                    us.append(CompareKinds(op, kind, form, phase_first=first))
    return us
