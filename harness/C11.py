"""C11 - readers are position-faithful, stateless and agree with the underlying stream (partial: the stream is a stub)."""
import itertools
from fractions import Fraction

import astropy.units as u
import numpy as np
import z3

import pulsarbat as pb
import pulsarbat.readers._base as RB
import pulsarbat.readers._baseband_readers as RR
import pulsarbat.utils as U
from pbsym import core as K
from pbsym.core import SComplex, SInt, SReal
from pbsym.modes import EPOCH, Raised, SigView, cterm, qterm, time_term
from pbsym.runner import Unit
from pbsym.stubs import NPProxy, OpProxy, UProxy, standard_patches, sym_int
from pbsym.tarr import SymSlice, SymTime, TArr, symlen, zint

from .common import RV, cneq, compare_signals, iterm, meta_checks, neq, rterm

META = {
    "stubs": ["baseband.open replaced by a stream stub: symbolic length M, sample rate, start time, complex/real flag, sample shape, header "
              "fields (GUPPI: OBSFREQ, FD_POLN, sideband; DADA: NPOL, NDIM, BW, FREQ, NCHAN); seek/read return the stream's samples as "
              "uninterpreted functions of (position, index) (T-arrays)",
              "real_to_complex replaced by an uninterpreted function of (block start, block length, output index) in the real-baseband "
              "units (its correctness is C19)", "len/operator.index/int/Time/np/u stand-ins in the reader modules as in C01"],
    "bounds": {"stream length": "0 <= M <= 2^50 symbolic", "sample rate": "concrete per format (16 MHz, 3 Hz, 2.5 kHz)", "requests": "offset, n any integers (two successive reads)", "formats": "generic complex, "
               "generic real (Hilbert), GUPPI raw (USB/LSB, LIN/CIRC), DADA Stokes (BW of either sign)", "sideband": "False, True, boolean mask"},
    "assumptions": ["exact real time arithmetic", "the stub stream behaves like baseband's StreamReader (fresh handle per read, seek then read)"],
    "outside": ["that baseband decodes the files correctly", "concurrent reads from many threads", "Dask reads (C09)",
                "Time round-off in offset_at(time_at(k)) through absolute times; the floating-point round trip through relative times is "
                "decided at the (6,14) format for k <= 64 only"],
}
R2CR = z3.Function("r2c_re", z3.IntSort(), z3.IntSort(), z3.IntSort(), z3.IntSort(), z3.RealSort())
R2CI = z3.Function("r2c_im", z3.IntSort(), z3.IntSort(), z3.IntSort(), z3.IntSort(), z3.RealSort())


class Header(dict):
    sideband = True


class FH:
    """stub of a baseband stream reader"""

    def __init__(self, base, M, sr, t0, cplx, header=None):
        self.base, self.M, self.sample_rate, self.start_time, self.complex_data = base, M, sr, t0, cplx
        self.header0 = header
        self.pos = 0
        self.log = []

    @property
    def shape(self):
        b = self.base
        return (self.M,) + (tuple(b.cols.shape) if isinstance(b, TArr) else tuple(b.shape[1:]))

    def __enter__(self):
        return self

    def __exit__(self, *a):
        return False

    def seek(self, o):
        self.pos = o
        self.log.append(("seek", o))

    def read(self, n):
        self.log.append(("read", n))
        b = self.base
        if isinstance(b, TArr):
            r = b[SymSlice(self.pos, self.pos + n, None, force=True)]
            r.origin = (zint(self.pos), zint(n))          # which block of the stream this is (for the real_to_complex stub)
            return r
        return b[int(self.pos):int(self.pos) + int(n)].copy()


def r2c_stub(z, axis=0):
    """uninterpreted real_to_complex on a T-array block: element i of the result is a function of (block identity, i, index)"""
    if not isinstance(z, TArr):
        return r2c_stub.real(z, axis=axis)
    blk = z.origin             # (start, length) terms of the block just read
    n = SInt(z3.simplify(zint(z.length) / 2))
    cols = np.empty(z.cols.shape, dtype=object)
    for k, ix in enumerate(np.ndindex(*z.cols.shape)):
        cols[ix] = (lambda k: (lambda t: SComplex(R2CR(blk[0], blk[1], t, k), R2CI(blk[0], blk[1], t, k))))(k)
    return TArr(n, cols, np.complex64)


def reader_patches():
    npx, ux = NPProxy(), UProxy()
    p = standard_patches()
    for mod in (RB, RR):
        p += [(mod, "np", npx), (mod, "u", ux), (mod, "Time", SymTime), (mod, "len", symlen)]
    p += [(RB, "operator", OpProxy()), (RB, "int", sym_int)]
    return p


class Read(Unit):
    functions = ("pulsarbat.readers._base:BaseReader.__init__", "pulsarbat.readers._base:BaseReader.read", "pulsarbat.readers._base:BaseReader.time_at",
                 "pulsarbat.readers._base:BaseReader.offset_at", "pulsarbat.readers._base:BaseReader._read_data",
                 "pulsarbat.readers._baseband_readers:BasebandReader.__init__", "pulsarbat.readers._baseband_readers:BasebandReader._read_baseband",
                 "pulsarbat.readers._baseband_readers:GUPPIRawReader.__init__", "pulsarbat.readers._baseband_readers:GUPPIRawReader._read_array",
                 "pulsarbat.readers._baseband_readers:DADAStokesReader.__init__", "pulsarbat.readers._baseband_readers:DADAStokesReader._read_array")
    witnesses = 2

    def __init__(self, kind, lsb=False):
        self.kind, self.lsb = kind, lsb
        self.name = f"read-{kind}-lsb{lsb}"
        self.bounds = {"format": kind, "lower_sideband": str(lsb), "M<=": "2^50"}

    def patches(self):
        unit = self
        p = reader_patches()

        class BB:
            @staticmethod
            def open(name, mode="rs", **kw):
                unit.opened.append(kw)
                fh = FH(*unit.stream_args)
                unit.handles.append(fh)
                return fh
        p.append((RR, "baseband", BB))
        if self.kind == "real":
            r2c_stub.real = U.__dict__["real_to_complex"]
            p.append((U, "real_to_complex", r2c_stub))
        return p

    # the stream and reader
    def in_shape(self):
        return {"complex": (2,), "real": (2,), "guppi": (2, 3), "dada-stokes": (4, 2)}[self.kind]      # guppi: (pol, chan); dada: (pol, chan)

    def build(self, S):
        M = S.int("M", 0, 2**50)
        # concrete sample spacing (keeps offset<->time conversions linear): 1/16 us, 1/3 s, 0.4 ms by format
        dt = {"complex": Fraction(1, 16 * 10**6), "real": Fraction(1, 3), "guppi": Fraction(1, 2500), "dada-stokes": Fraction(1, 16 * 10**6)}[self.kind]
        t0 = S.real("t0")
        S.assume(t0 > -10**6)
        S.assume(t0 < 10**6)
        cplx = self.kind in ("complex", "guppi")
        base = S.tarray("b", M, self.in_shape(), np.complex64 if cplx else np.float32)
        hdr = None
        if self.kind == "guppi":
            hdr = Header(OBSFREQ=1400.5, FD_POLN="LIN" if self.lsb else "CIRC")
            hdr.sideband = not self.lsb
        elif self.kind == "dada-stokes":
            hdr = Header(NPOL=4, NDIM=1, BW=(-16.0 if self.lsb else 16.0), FREQ=800.25, NCHAN=2)
        sr = float(1 / dt) * u.Hz
        off, n, off2, n2, k = (S.int(x) for x in ("off", "n", "off2", "n2", "k"))
        return {"M": M, "dt": dt, "t0": t0, "base": base, "hdr": hdr, "sr": sr, "cplx": cplx, "off": off, "n": n, "off2": off2, "n2": n2,
                "k": k, "S": S}

    def _mk_reader(self, a):
        S = a["S"]
        self.opened, self.handles = [], []
        self.stream_args = (a["base"], a["M"], a["sr"], S.time(a["t0"]), a["cplx"], a["hdr"])
        if not S.symbolic:
            # concrete run: the same stub stream, installed for the duration of the call
            import contextlib

            @contextlib.contextmanager
            def cm():
                unit = self

                class BB:
                    @staticmethod
                    def open(name, mode="rs", **kw):
                        unit.opened.append(kw)
                        fh = FH(*unit.stream_args)
                        unit.handles.append(fh)
                        return fh
                old = RR.baseband
                RR.baseband = BB
                try:
                    yield
                finally:
                    RR.baseband = old
            return cm()
        import contextlib
        return contextlib.nullcontext()

    def call(self, a):
        with self._mk_reader(a):
            lsb = self.lsb
            if self.kind == "guppi":
                r = RR.GUPPIRawReader("f")
            elif self.kind == "dada-stokes":
                r = RR.DADAStokesReader("f")
            else:
                if lsb == "mask":
                    lsb = [False, True]
                kw = dict(signal_type=pb.BasebandSignal, signal_kwargs=dict(center_freq=1 * u.GHz)) if self.kind != "x" else {}
                r = RR.BasebandReader("f", lower_sideband=lsb, **kw)
            attrs0 = (r.shape, r.sample_rate, r.start_time, r.dtype, len(r) if not isinstance(r.shape[0], SInt) else r.shape[0])
            res = {"reader": r}
            for tag, (o, n) in (("first", (a["off"], a["n"])), ("second", (a["off2"], a["n2"]))):
                nh = len(self.handles)
                try:
                    res[tag] = r.read(o, n)
                except Exception as e:
                    res[tag] = Raised(e)
                res[tag + "_new_handles"] = len(self.handles) - nh
            res["attrs_same"] = (r.shape == attrs0[0]) and (r.sample_rate is attrs0[1]) and (r.start_time is attrs0[2]) and (r.dtype == attrs0[3])
            res["time_at_off"] = r.time_at(a["off"])
            res["stop"] = r.stop_time
            res["len"] = r.shape[0]
            try:
                res["roundtrip"] = r.offset_at(r.time_at(a["k"]))
            except Exception as e:
                res["roundtrip"] = Raised(e)
            try:
                res["roundtrip_rel"] = r.offset_at(r.time_at(a["k"], unit=u.ms))
            except Exception as e:
                res["roundtrip_rel"] = Raised(e)
            return res

    def _read_spec(self, S, a, res, tag, o, n):
        M = iterm(a["M"])
        L = (M / 2) if self.kind == "real" else M              # reader length (z3 int division)
        dt = rterm(a["dt"]) * (2 if self.kind == "real" else 1)
        bad_req = z3.Or(o < 0, n < 0, o + n > L)
        out = res[tag]
        if isinstance(out, Raised):
            kind_ok = issubclass(out.cls, (ValueError, EOFError))
            return [(f"{tag}:raises-only-out-of-range", z3.Not(bad_req)), (f"{tag}:exception-type", z3.BoolVal(not kind_ok))]
        vo = SigView(out)
        checks = [(f"{tag}:must-raise-out-of-range", bad_req), (f"{tag}:length", vo.length != n),
                  (f"{tag}:sample_rate", neq(S, vo.sr * dt, z3.RealVal(1), 1e-9))]
        # (how many stream handles a read opens is not part of the property - a correct cache would be fine - so it is not checked)
        checks.append((f"{tag}:start_time", z3.BoolVal(True) if vo.t0 is None else neq(S, vo.t0, rterm(a["t0"]) + z3.ToReal(o) * dt, 1e-6)))
        want_cls = {"guppi": pb.DualPolarizationSignal, "dada-stokes": pb.FullStokesSignal}.get(self.kind, pb.BasebandSignal)
        checks.append((f"{tag}:type", z3.BoolVal(vo.cls is not want_cls)))
        # samples
        base = a["base"]
        ish = self.in_shape()

        def src(t, ix):
            if isinstance(base, TArr):
                return cterm(base.cols[ix](zint(t)))
            return cterm(base[(int(t),) + ix])
        bad = []
        kk = z3.Int("k_skolem") if S.symbolic else None
        rng = [kk] if S.symbolic else list(range(min(vo.nlen or 0, 24)))
        cond = (lambda b: z3.And(kk >= 0, kk < n, b)) if S.symbolic else (lambda b: b)
        oshape = vo.sample_shape
        for t in rng:
            for ox in np.ndindex(*oshape):
                got = vo.elem(t, ox)
                if self.kind == "real":
                    if S.symbolic:
                        flat = int(np.ravel_multi_index(ox, oshape))
                        want = (R2CR(2 * o, 2 * n, zint(t), flat), R2CI(2 * o, 2 * n, zint(t), flat))
                    else:
                        oc, nc = int(K.evalz(o, S.env)), int(K.evalz(n, S.env))
                        blk = U.real_to_complex(base[2 * oc:2 * oc + 2 * nc], axis=0)
                        want = cterm(blk[(int(t),) + ox])
                    conj = self.lsb is True or (self.lsb == "mask" and [False, True][ox[0]])
                else:
                    if self.kind == "guppi":
                        ix = (ox[1], ox[0])                                   # (time, pol, chan) -> (time, chan, pol)
                        conj = bool(self.lsb)
                    elif self.kind == "dada-stokes":
                        ch = (ish[1] - 1 - ox[0]) if self.lsb else ox[0]      # LSB: channels flipped
                        ix = (ox[1], ch)
                        conj = False
                    else:
                        ix = ox
                        conj = self.lsb is True or (self.lsb == "mask" and [False, True][ox[0]])
                    want = src(o + t if S.symbolic else int(K.evalz(o, S.env)) + t, ix)
                if conj:
                    want = (want[0], -want[1])
                bad.append(cond(cneq(S, got, want, 1e-6)))
        checks.append((f"{tag}:samples", z3.Or(bad) if bad else z3.BoolVal(False)))
        return checks

    def spec(self, S, a, res):
        if isinstance(res, Raised):
            return [("no-exception", z3.BoolVal(True))]
        checks = []
        checks += self._read_spec(S, a, res, "first", iterm(a["off"]), iterm(a["n"]))
        checks += self._read_spec(S, a, res, "second", iterm(a["off2"]), iterm(a["n2"]))
        checks.append(("reader-attributes-unchanged-by-reads", z3.BoolVal(not res["attrs_same"])))
        M = iterm(a["M"])
        L = (M / 2) if self.kind == "real" else M
        dt = rterm(a["dt"]) * (2 if self.kind == "real" else 1)
        checks.append(("len", iterm(res["len"]) != L))
        checks.append(("time_at", neq(S, time_term(res["time_at_off"]), rterm(a["t0"]) + z3.ToReal(iterm(a["off"])) * dt, 1e-6)))
        checks.append(("stop_time", neq(S, time_term(res["stop"]), rterm(a["t0"]) + z3.ToReal(L) * dt, 1e-6)))
        k = iterm(a["k"])
        inr = z3.And(k >= 0, k <= L)
        for nm in ("roundtrip", "roundtrip_rel"):
            rt = res[nm]
            if isinstance(rt, Raised):
                checks.append((f"{nm}:raises-only-out-of-range", inr))
            else:
                checks.append((f"{nm}:offset_at(time_at(k))==k", z3.Or(z3.Not(inr), iterm(rt) != k)))
        r = res["reader"]
        if self.kind == "guppi":
            checks.append(("guppi-metadata", z3.BoolVal(not (r.pol_type == ("linear" if self.lsb else "circular") and r.freq_align == "center"
                                                             and r.center_freq == 1400.5 * u.MHz and r.lower_sideband is bool(self.lsb)))))
        if self.kind == "dada-stokes":
            ok = (r.freq_align == ("top" if self.lsb else "bottom") and r.center_freq == 800.25 * u.MHz and r.chan_bw == 8.0 * u.MHz)
            checks.append(("dada-metadata", z3.BoolVal(not ok)))
        return checks

    def witness_constraints(self, ctx):
        i = ctx.inputs
        return [i["M"] <= 40] + [z3.And(i[x] <= 45, i[x] >= -5) for x in ("off", "n", "off2", "n2", "k")]

    def compare(self, S, args, out, CS, cargs, cout):
        if isinstance(out, Raised) or isinstance(cout, Raised):
            return compare_signals(S, out, CS, cout)
        pr = []
        for tag in ("first", "second"):
            pr += [f"{tag}: {p}" for p in compare_signals(S, out[tag], CS, cout[tag], rtol=1e-6, time_tol=1e-6)]
        return pr

    def signature(self, label, values, detail):
        return f"reader:{self.kind}:{label.split(':', 1)[-1]}"


class _ArrReader(RB.BaseReader):
    def _read_array(self, offset, n, /, **kw):
        return np.zeros((n, 2), np.float32)


class RoundTripFP(Unit):
    """offset_at(time_at(k, unit)) == k in FLOATING POINT through the relative-time path: the real time_at / offset_at code runs on
    IEEE shadow values of a reduced format (one division, one or two multiplications, one rounding to integer)"""
    functions = ("pulsarbat.readers._base:BaseReader.time_at", "pulsarbat.readers._base:BaseReader.offset_at")
    witnesses = 0
    query_timeout_ms = 600000
    budget_s = 2400
    keep_budget = True
    solver_factory = staticmethod(lambda: z3.Tactic("qffp").solver())

    def __init__(self, fmt, kmax, unit):
        self.fmt, self.kmax, self.unit = fmt, kmax, unit
        self.name = f"roundtrip-fp{fmt[0]}_{fmt[1]}-k{kmax}-{unit}"
        self.bounds = {"float_format(exponent,significand bits)": list(fmt), "0<=k<=": kmax, "sample_rate": "any value of the format in (0.01, 1000) Hz",
                       "time_unit": unit, "note": "reduced width: the code is width-generic; z3 does not finish at float32/float64 (unknown after 300-600 s)"}

    def patches(self):
        from pbsym.fp import SFP
        SFP.SORT = z3.FPSort(*self.fmt)

        def keep(x):
            if isinstance(x, u.Quantity):
                x = x.to_value(u.one)
                x = x[()] if isinstance(x, np.ndarray) else x
            return x
        return [(RB, "np", NPProxy()), (RB, "u", UProxy()), (RB, "int", keep), (RB, "operator", OpProxy())]

    def path(self, ctx, state):
        from pbsym.fp import SFP
        SFP.SORT = z3.FPSort(*self.fmt)
        try:
            return Unit.path(self, ctx, state)
        finally:
            SFP.SORT = z3.Float64()

    def build(self, S):
        from pbsym.fp import SFP, RNE
        sr, k = S.fp("sr"), S.fp("k")
        if S.symbolic:
            so = SFP.SORT
            S.assume(z3.And(z3.fpGT(sr.e, z3.FPVal(0.01, so)), z3.fpLT(sr.e, z3.FPVal(1000.0, so))))
            S.assume(z3.And(z3.fpRoundToIntegral(RNE, k.e) == k.e, z3.fpGEQ(k.e, z3.FPVal(0.0, so)), z3.fpLEQ(k.e, z3.FPVal(float(self.kmax), so))))
        else:
            S.assume(0.01 < sr < 1000 and float(k).is_integer() and 0 <= k <= self.kmax)
        return {"sr": sr, "k": k, "sym": S.symbolic}

    def call(self, a):
        from pbsym.tarr import oq
        r = _ArrReader(shape=(self.kmax, 2), dtype=np.float32, sample_rate=1 * u.kHz)
        r._sample_rate = oq(a["sr"], u.Hz) if a["sym"] else a["sr"] * u.Hz
        k = a["k"] if a["sym"] else int(a["k"])
        un = {"s": u.s, "ms": u.ms}[self.unit]
        return r.offset_at(r.time_at(k, unit=un))

    def spec(self, S, a, out):
        if isinstance(out, Raised):
            return [("no-exception", z3.BoolVal(True))]
        if S.symbolic:
            return [("offset_at(time_at(k))==k", z3.Not(z3.fpEQ(out.e, a["k"].e)))]
        return [("offset_at(time_at(k))==k", z3.BoolVal(int(out) != int(a["k"])))]

    def signature(self, label, values, detail):
        return f"reader:roundtrip-fp:{label}"


def units(tier):
    us = [RoundTripFP((6, 14), 64, "s")]
    if tier != "quick":
        us += [RoundTripFP((6, 14), 64, "ms"), RoundTripFP((5, 11), 256, "s")]
    for kind in ("complex", "real"):
        for lsb in (False, True, "mask"):
            us.append(Read(kind, lsb))
    for kind in ("guppi", "dada-stokes"):
        for lsb in (False, True):
            us.append(Read(kind, lsb))
    return us
