"""C06 - dispersion delays obey the f^-2 law; incoherent dedispersion realigns by them."""
import itertools
from fractions import Fraction

import astropy.units as u
import numpy as np
import z3

import pulsarbat as pb
from pbsym import core as K
from pbsym.core import rint_term
from pbsym.modes import Raised, SigView, qterm, qterms, term_of_number
from pbsym.runner import Unit
from pbsym.symnd import SymND, plain
from pbsym import tarr as TA

from .common import RV, cneq, compare_signals, iterm, meta_checks, neq, rterm, zabs, zmax, zmin

META = {
    "stubs": ["real astropy Quantity / DispersionMeasure with dtype=object (unit algebra and conversion factors are astropy's own floats, "
              "lifted as the rationals of their shortest repr)",
              "incoherent_dedispersion: DM.sample_delay replaced by free reals d_i (monotone in i, |d_i| <= 2^40); the call arguments are "
              "checked to be (channel_freqs, ref_freq, sample_rate); the delay law itself is decided on the real method in the delay units",
              "T-arrays / slice stand-in / SymTime as in C01; NumPy round-half-even modelled with ToInt"],
    "bounds": {"delay law": "DM any real, f, f_ref > 0 any reals, units from {Hz, MHz, GHz}, sample rate > 0; scalar and length-2 arrays",
               "incoherent": "N <= 2^62 symbolic with N >= delay spread, nchan 1..3 quick / 1..4 thorough, four signal classes, trailing dims"},
    "assumptions": ["delay law compared with K = 1/2.41e-4 s MHz^2 cm^3/pc within 1e-12 * K*|DM|*(f^-2 + f_ref^-2) (astropy's unit scale "
                    "factors are floats)", "channel delays are monotone in the channel index (proved for the real time_delay in the "
                    "lemma unit for bands above 0 Hz)"],
    "outside": ["delay rounding in float64 near .5", "negative or zero channel frequencies", "signals shorter than the delay spread"],
}
K0 = Fraction(1000000, 241)          # 1/2.41e-4
SCALE = {"Hz": Fraction(1), "kHz": Fraction(10**3), "MHz": Fraction(10**6), "GHz": Fraction(10**9)}
UNITS = {"Hz": u.Hz, "kHz": u.kHz, "MHz": u.MHz, "GHz": u.GHz}
RTOL = Fraction(1, 10**12)


def law(dm, f_hz, g_hz):
    """K*DM*(f^-2 - g^-2) in seconds, f and g in Hz (z3 terms)"""
    inv2 = lambda x: z3.RealVal(0) if x is None else RV(10**12) / (x * x)          # (None: infinite frequency)
    return RV(K0) * dm * (inv2(f_hz) - inv2(g_hz))


def law_tol(S, dm, fs, extra=1):
    t = RV(K0) * zabs(dm) * sum((RV(10**12) / (f * f) for f in fs if f is not None), z3.RealVal(0))
    return t * RV(RTOL if S.symbolic else Fraction(1, 10**9)) * extra


def outside(x, y, tol):
    return z3.Or(x - y > tol, y - x > tol)


class DelayLaw(Unit):
    functions = ("pulsarbat.transforms.dedispersion:DispersionMeasure.time_delay",
                 "pulsarbat.transforms.dedispersion:DispersionMeasure.sample_delay")
    witnesses = 1
    variants = (None, "inf-ref")        # concrete replay of each witness with g = infinite frequency (1/g^2 = 0)

    DMU = {"pc/cm3": (u.pc / u.cm**3, Fraction(1)), "pc/m3": (u.pc / u.m**3, Fraction(1, 10**6)), "kpc/cm3": (u.kpc / u.cm**3, Fraction(1000))}

    def __init__(self, uf, ug, uh, usr, arr=False, dmu="pc/cm3"):
        self.uf, self.ug, self.uh, self.usr, self.arr, self.dmu = uf, ug, uh, usr, arr, dmu
        self.name = f"law-{uf}-{ug}-{uh}-{usr}{'-arr' if arr else ''}{'' if dmu == 'pc/cm3' else '-dm-' + dmu.replace('/', '_')}"
        self.bounds = {"units(f,g,h,sample_rate)": [uf, ug, uh, usr], "array_f": arr, "DM_unit": dmu}

    def build(self, S):
        dm = S.real("dm")
        S.assume(dm > -10**6)
        S.assume(dm < 10**6)
        v = {}
        for n, un in (("f", self.uf), ("g", self.ug), ("h", self.uh)):
            x = S.real(n)
            S.assume(x > Fraction(1, 1000))
            S.assume(x < 10**6)
            v[n] = x
        f2 = S.real("f2")
        S.assume(f2 > Fraction(1, 1000))
        S.assume(f2 < 10**6)
        sr = S.real("sr")
        S.assume(sr > Fraction(1, 1000))
        S.assume(sr < 10**6)
        if S.symbolic:
            DM = pb.DM(np.array(dm, dtype=object), self.DMU[self.dmu][0], dtype=object)
            fq = S.quantity(SymND(np.array([v["f"], f2], dtype=object)), UNITS[self.uf]) if self.arr else S.quantity(v["f"], UNITS[self.uf])
        else:
            DM = pb.DM(dm, self.DMU[self.dmu][0])
            fq = np.array([v["f"], f2]) * UNITS[self.uf] if self.arr else v["f"] * UNITS[self.uf]
        if S.variant == "inf-ref":
            v["g"] = None
        return {"DM": DM, "dm": dm, "f": fq, "g": (np.inf * UNITS[self.ug]) if v["g"] is None else S.quantity(v["g"], UNITS[self.ug]),
                "h": S.quantity(v["h"], UNITS[self.uh]),
                "sr": S.quantity(sr, UNITS[self.usr]), "v": v, "f2": f2, "srv": sr}

    def call(self, a):
        DM = a["DM"]
        return {"fg": DM.time_delay(a["f"], a["g"]), "gf": DM.time_delay(a["g"], a["f"]), "gh": DM.time_delay(a["g"], a["h"]),
                "fh": DM.time_delay(a["f"], a["h"]), "s_fg": DM.sample_delay(a["f"], a["g"], a["sr"])}

    def spec(self, S, a, out):
        if isinstance(out, Raised):
            return [("no-exception", z3.BoolVal(True))]
        dm = rterm(a["dm"]) * RV(self.DMU[self.dmu][1])           # in pc/cm^3
        f = rterm(a["v"]["f"]) * RV(SCALE[self.uf])
        f2 = rterm(a["f2"]) * RV(SCALE[self.uf])
        g = None if a["v"]["g"] is None else rterm(a["v"]["g"]) * RV(SCALE[self.ug])
        h = rterm(a["v"]["h"]) * RV(SCALE[self.uh])
        sr = rterm(a["srv"]) * RV(SCALE[self.usr])
        fs = [f, f2] if self.arr else [f]
        checks = []

        def vals(q):
            return qterms(q, u.s) if self.arr else [qterm(q, u.s)]
        fg, gf, gh, fh = vals(out["fg"]), vals(out["gf"]), [qterm(out["gh"], u.s)], vals(out["fh"])
        sfg = out["s_fg"]
        if self.arr:
            sfg = [term_of_number(e) for e in np.asarray(plain(sfg), dtype=object).ravel()] if S.symbolic else [term_of_number(e) for e in np.asarray(sfg).ravel()]
        else:
            sfg = [term_of_number(sfg)]
        checks.append(("unit", z3.BoolVal(out["fg"].unit != u.s)))
        for i, fi in enumerate(fs):
            checks.append((f"law[{i}]", outside(fg[i], law(dm, fi, g), law_tol(S, dm, [fi, g]))))
            checks.append((f"antisymmetric[{i}]", outside(fg[i] + gf[i], z3.RealVal(0), law_tol(S, dm, [fi, g], 2))))
            checks.append((f"additive[{i}]", outside(fg[i] + gh[0], fh[i], law_tol(S, dm, [fi, g, h], 3))))
            checks.append((f"sample_delay[{i}]", outside(sfg[i], law(dm, fi, g) * sr, law_tol(S, dm, [fi, g], 2) * sr)))
        return checks

    def compare(self, S, args, out, CS, cargs, cout):
        if isinstance(out, Raised) or isinstance(cout, Raised):
            return [] if (isinstance(out, Raised) and isinstance(cout, Raised)) else ["outcome kind differs"]
        a = qterms(out["fg"], u.s) if self.arr else [qterm(out["fg"], u.s)]
        b = np.atleast_1d(cout["fg"].to_value(u.s))
        pr = []
        for x, y in zip(a, b):
            xv = float(K.evalz(x, CS.env, CS.ufs))
            if abs(xv - float(y)) > 1e-9 * (abs(float(y)) + 1e-30):
                pr.append(f"time_delay {xv} vs {float(y)}")
        return pr

    def signature(self, label, values, detail):
        return f"delay:{label.split('[')[0]}"


class Monotone(Unit):
    """lemma used by the incoherent units: channel delays of a band above 0 Hz are monotone in the channel index"""
    functions = ("pulsarbat.transforms.dedispersion:DispersionMeasure.sample_delay", "pulsarbat.core:RadioSignal.channel_freqs")
    witnesses = 1

    def __init__(self, nchan, align):
        self.nchan, self.align = nchan, align
        self.name = f"monotone-n{nchan}-{align}"
        self.bounds = {"nchan": nchan, "freq_align": align}

    def build(self, S):
        dm, cf, bw, rf, sr = (S.real(n) for n in ("dm", "cf", "bw", "rf", "sr"))
        for x in (cf, bw, rf, sr):
            S.assume(x > Fraction(1, 1000))
            S.assume(x < 10**6)
        S.assume(dm > -10**6)
        S.assume(dm < 10**6)
        S.assume(cf - bw * self.nchan / 2 > Fraction(1, 1000))          # band above 0 MHz
        data = S.rarray("z", (1, self.nchan))
        sig = pb.RadioSignal(data, sample_rate=S.quantity(sr, u.kHz), center_freq=S.quantity(cf, u.MHz),
                             chan_bw=S.quantity(bw, u.MHz), freq_align=self.align)
        DM = pb.DM(np.array(dm, dtype=object), dtype=object) if S.symbolic else pb.DM(dm)
        return {"sig": sig, "DM": DM, "dm": dm, "rf": S.quantity(rf, u.MHz)}

    def call(self, a):
        s = a["sig"]
        return a["DM"].sample_delay(s.channel_freqs, a["rf"], s.sample_rate)

    def spec(self, S, a, out):
        if isinstance(out, Raised):
            return [("no-exception", z3.BoolVal(True))]
        d = [term_of_number(e) for e in np.asarray(plain(out) if S.symbolic else out, dtype=object).ravel()]
        dm = rterm(a["dm"])
        bad = []
        for x, y in zip(d, d[1:]):
            bad.append(z3.Or(z3.And(dm >= 0, x < y), z3.And(dm <= 0, x > y)))
        return [("monotone", z3.Or(bad) if bad else z3.BoolVal(False))]

    def signature(self, label, values, detail):
        return f"delay:{label}"


class FakeDM:
    """Stands in for the DispersionMeasure argument of incoherent_dedispersion: returns the given delays and records the call."""

    def __init__(self, delays):
        self.delays = delays
        self.calls = []

    def sample_delay(self, f, ref, sr):
        self.calls.append((f, ref, sr))
        return self.delays


CLS = {"RadioSignal": (pb.RadioSignal, (), np.float64), "IntensitySignal": (pb.IntensitySignal, (2,), np.float32),
       "FullStokesSignal": (pb.FullStokesSignal, (4,), np.float64), "BasebandSignal": (pb.BasebandSignal, (), np.complex64),
       "DualPolarizationSignal": (pb.DualPolarizationSignal, (2,), np.complex128)}


class Incoherent(Unit):
    functions = ("pulsarbat.transforms.dedispersion:incoherent_dedispersion", "pulsarbat.core:Signal.like",
                 "pulsarbat.core:RadioSignal.channel_freqs")
    witnesses = 2

    def __init__(self, clsname, nchan, with_t0=True, ref=None, align="center"):
        self.clsname, self.nchan, self.with_t0, self.ref, self.align = clsname, nchan, with_t0, ref, align
        self.name = f"incoh-{clsname}-n{nchan}{'' if with_t0 else '-not0'}-{'ref' if ref else 'noref'}-{align}"
        self.bounds = {"class": clsname, "nchan": nchan, "start_time": with_t0, "ref_freq_given": bool(ref), "freq_align": align,
                       "N<=": "2^62", "|delay|<=": "2^40"}

    def build(self, S):
        cls, trail, dtype = CLS[self.clsname]
        N = S.int("N", 0, 2**62)
        data = S.tarray("z", N, (self.nchan,) + trail, dtype)
        dt = S.real("dt")
        S.assume(dt > Fraction(1, 10**9))
        S.assume(dt < 1000)
        t0v = None
        if self.with_t0:
            t0v = S.real("t0")
            S.assume(t0v > -10**6)
            S.assume(t0v < 10**6)
        cf = S.real("cf")
        S.assume(cf > 1)
        S.assume(cf < 10**5)
        kw = dict(sample_rate=S.quantity(1 / dt, u.Hz), start_time=S.time(t0v), center_freq=S.quantity(cf, u.MHz), freq_align=self.align)
        if not issubclass(cls, pb.BasebandSignal):
            bw = S.real("bw")
            S.assume(bw > Fraction(1, 1000))
            S.assume(bw < 100)
            kw["chan_bw"] = S.quantity(bw, u.MHz)
        if cls is pb.DualPolarizationSignal:
            kw["pol_type"] = "linear"
        sig = cls(data, **kw)
        ds = []
        for i in range(self.nchan):
            d = S.real(f"d{i}")
            S.assume(d <= 2**40)
            S.assume(d >= -2**40)
            ds.append(d)
        t = [rterm(d) for d in ds]
        S.assume(z3.Or(z3.And([x >= y for x, y in zip(t, t[1:])]), z3.And([x <= y for x, y in zip(t, t[1:])])))
        r = [rint_term(x) for x in t]
        c = -zmin([z3.IntVal(0), r[0], r[-1]])
        mx = zmax([x + c for x in r])
        S.assume(iterm(N) >= mx)                     # the signal is at least as long as the delay spread
        delays = SymND(np.array(ds, dtype=object), np.float64) if S.symbolic else np.array(ds, dtype=np.float64)
        rf = None
        if self.ref:
            rfv = S.real("rf")
            S.assume(rfv > 1)
            S.assume(rfv < 10**5)
            rf = S.quantity(rfv, u.MHz)
        return {"sig": sig, "N": N, "dt": dt, "ds": ds, "DM": FakeDM(delays), "rf": rf}

    def call(self, a):
        TA.STACK_LENS.clear()
        out = pb.incoherent_dedispersion(a["sig"], a["DM"], ref_freq=a["rf"])
        return {"out": out, "stack_lens": [list(x) for x in TA.STACK_LENS]}

    def spec(self, S, a, out):
        if isinstance(out, Raised):
            return [("no-exception", z3.BoolVal(True))]
        vin, vo = SigView(a["sig"]), SigView(out["out"])
        N = iterm(a["N"])
        dt = rterm(a["dt"])
        t = [rterm(d) for d in a["ds"]]
        r = [rint_term(x) for x in t]
        c = -zmin([z3.IntVal(0), r[0], r[-1]])
        L = N - zmax([x + c for x in r])
        checks = [("length", vo.length != L)]
        checks += meta_checks(S, vin, vo, what=("cls", "sr", "cf", "bw", "align", "pol_type"))
        checks.append(("dtype", z3.BoolVal(vo.dtype != vin.dtype)))
        checks.append(("sample-shape", z3.BoolVal(vo.sample_shape != vin.sample_shape)))
        if vin.t0 is None:
            checks.append(("start_time", z3.BoolVal(vo.t0 is not None)))
        elif vo.t0 is None:
            checks.append(("start_time", z3.BoolVal(True)))
        else:
            checks.append(("start_time", z3.And(L > 0, neq(S, vo.t0, vin.t0 + z3.ToReal(c) * dt, 1e-6))))
        # the delays were asked for at the channel labels, the reference frequency and the sample rate of the signal
        calls = a["DM"].calls
        ok_args = len(calls) == 1
        if ok_args:
            f, ref, sr = calls[0]
            want_ref = a["rf"] if a["rf"] is not None else a["sig"].center_freq
            bad = [neq(S, x, y, 1e-3) for x, y in zip(qterms(f, u.Hz), vin.chan_freqs())]
            bad.append(neq(S, qterm(ref, u.Hz), qterm(want_ref, u.Hz), 1e-3))
            bad.append(neq(S, qterm(sr, u.Hz), vin.sr, 1e-9))
            checks.append(("delay-arguments", z3.Or(bad)))
        else:
            checks.append(("delay-arguments", z3.BoolVal(True)))
        bad = []
        trail = vin.sample_shape[1:]
        if S.symbolic:
            k = z3.Int("k_skolem")
            for i in range(self.nchan):
                src = k + r[i] + c
                for tx in np.ndindex(*trail):
                    bad.append(z3.And(k >= 0, k < L, z3.Or(src < 0, src >= N, cneq(S, vo.elem(k, (i,) + tx), vin.elem(src, (i,) + tx)))))
            for lens in out["stack_lens"]:
                bad.append(z3.Or([iterm(x) != L for x in lens]))
        else:
            Lc = int(K.evalz(L, S.env, S.ufs))
            cc = int(K.evalz(c, S.env, S.ufs))
            rc = [int(K.evalz(x, S.env, S.ufs)) for x in r]
            if vo.nlen == Lc:
                Nc = int(K.evalz(N, S.env, S.ufs))
                for kk in range(min(Lc, 48)):
                    for i in range(self.nchan):
                        src = kk + rc[i] + cc
                        for tx in np.ndindex(*trail):
                            if not (0 <= src < Nc):
                                bad.append(z3.BoolVal(True))
                            else:
                                bad.append(cneq(S, vo.elem(kk, (i,) + tx), vin.elem(src, (i,) + tx)))
        checks.append(("samples", z3.Or(bad) if bad else z3.BoolVal(False)))
        return checks

    def witness_constraints(self, ctx):
        i = ctx.inputs
        return [i["N"] <= 30] + [z3.And(i[f"d{j}"] <= 12, i[f"d{j}"] >= -12) for j in range(self.nchan)]

    def compare(self, S, args, out, CS, cargs, cout):
        if isinstance(out, Raised) or isinstance(cout, Raised):
            return compare_signals(S, out, CS, cout)
        return compare_signals(S, out["out"], CS, cout["out"], rtol=1e-9, time_tol=1e-6)

    def signature(self, label, values, detail):
        return f"incoherent:{label}"


def units(tier):
    us = [DelayLaw("MHz", "GHz", "MHz", "kHz"), DelayLaw("Hz", "MHz", "GHz", "MHz", arr=True), DelayLaw("GHz", "GHz", "Hz", "Hz"),
          DelayLaw("kHz", "Hz", "kHz", "GHz", arr=True), DelayLaw("MHz", "MHz", "GHz", "kHz", dmu="pc/m3"),
          DelayLaw("GHz", "MHz", "MHz", "Hz", arr=True, dmu="kpc/cm3")]
    if tier != "quick":
        us += [DelayLaw(a, b, c, d, arr=(i % 2 == 0)) for i, (a, b, c, d) in enumerate(itertools.product(("Hz", "MHz", "GHz"), repeat=4))
               if (a, b, c, d) not in (("GHz", "GHz", "Hz", "Hz"),)][::5]
    for n in ((2, 3) if tier == "quick" else (2, 3, 4, 5)):
        for al in ("center", "bottom", "top"):
            us.append(Monotone(n, al))
    aligns = itertools.cycle(["center", "bottom", "top"])
    for cn in CLS:
        for n in ((1, 2, 3) if tier == "quick" else (1, 2, 3, 4)):
            if tier == "quick" and cn not in ("RadioSignal", "BasebandSignal") and n != 2:
                continue
            us.append(Incoherent(cn, n, with_t0=True, ref=(n % 2 == 0), align=next(aligns)))
        us.append(Incoherent(cn, 2, with_t0=False, ref=True, align=next(aligns)))
    return us
