"""C13 - polarisation conversions are unitary, invertible and Stokes-consistent."""
from fractions import Fraction

import astropy.units as u
import numpy as np
import z3

import pulsarbat as pb
from pbsym import core as K
from pbsym.core import Ctx
from pbsym.modes import Raised, SigView, call_catching, cterm
from pbsym.runner import Unit
from pbsym.symnd import plain

from .common import RV, cadd, cmul, cneq, compare_signals, magnitude_bound, meta_checks, neq

META = {
    "stubs": ["np proxy in pulsarbat.core (np.sqrt(2) -> algebraic constant sqrt2 with sqrt2*sqrt2 = 2, sqrt2 > 0)",
              "astropy Time replaced by exact-real SymTime; Quantity real astropy with dtype=object"],
    "bounds": {"shapes": "(1,1,2), (2,2,2), (1,1,2,2); quick uses the first two", "samples": "every complex value (pairs of reals)",
               "bases": "linear and circular start"},
    "assumptions": ["exact real arithmetic (complex64/complex128 rounding outside the claim)"],
    "outside": ["the two complex widths", "Dask data"],
}


def csub(a, b):
    return (a[0] - b[0], a[1] - b[1])


def cscale(a, r):
    return (a[0] * r, a[1] * r)


def conj(a):
    return (a[0], -a[1])


def pw(a):
    return a[0] * a[0] + a[1] * a[1]


I_UNIT = (z3.RealVal(0), z3.RealVal(1))


class Pol(Unit):
    functions = ("pulsarbat.core:DualPolarizationSignal.to_linear", "pulsarbat.core:DualPolarizationSignal.to_circular",
                 "pulsarbat.core:DualPolarizationSignal.to_stokes", "pulsarbat.core:BasebandSignal.to_intensity",
                 "pulsarbat.core:FullStokesSignal.__getitem__", "pulsarbat.core:Signal.like",
                 "pulsarbat.core:DualPolarizationSignal.__init__")
    witnesses = 1

    def __init__(self, shape, start, c64=False):
        self.shape, self.start, self.c64 = tuple(shape), start, c64
        self.name = f"pol-{'x'.join(map(str, shape))}-{start}{'-c64' if c64 else ''}"
        self.bounds = {"shape": list(shape), "start_basis": start, "complex64": c64}

    def build(self, S):
        z = S.carray("z", self.shape, np.complex64 if self.c64 else np.complex128)
        cf = S.real("cf")
        t0 = S.real("t0")
        S.assume(t0 > -10**6)
        S.assume(t0 < 10**6)
        S.assume(cf > -10**7)
        S.assume(cf < 10**7)
        sig = pb.DualPolarizationSignal(z, sample_rate=2 * u.MHz, start_time=S.time(t0), center_freq=S.quantity(cf, u.kHz),
                                        freq_align="top", pol_type=self.start, meta={"a": 1})
        return {"sig": sig, "z": z}

    def call(self, a):
        s = a["sig"]
        r = {"circ": s.to_circular(), "lin": s.to_linear(), "stokes": s.to_stokes(), "inten": s.to_intensity()}
        r["circ_lin"] = r["circ"].to_linear()
        r["lin_circ"] = r["lin"].to_circular()
        r["stokes_circ"] = r["circ"].to_stokes()
        r["stokes_lin"] = r["lin"].to_stokes()
        for k in "IQUV":
            r["st" + k] = r["stokes"][k]
        r["stI_attr"] = r["stokes"].stokesI
        return r

    def spec(self, S, a, out):
        if isinstance(out, Raised):
            return [("no-exception", z3.BoolVal(True))]
        if S.symbolic:
            S.ctx.use_const("sqrt2")
        r2 = K.SQRT2
        inv = r2 / 2
        z = plain(a["z"]) if S.symbolic else a["z"]
        mag = magnitude_bound(S, a["z"])
        tol = (3e-6 if self.c64 else 1e-9) * mag
        tol2 = (3e-6 if self.c64 else 1e-9) * mag * mag * 4
        vin = SigView(a["sig"])
        V = {k: SigView(v) for k, v in out.items()}
        checks = []
        # types, metadata
        for k in ("circ", "lin", "circ_lin", "lin_circ"):
            checks += [(f"{k}:{n}", b) for n, b in meta_checks(S, vin, V[k], what=("cls", "sr", "t0", "cf", "bw", "align"))]
            # (the property does not fix the complex width of the result: complex64 input is promoted to complex128
            #  by the division by the float64 scalar np.sqrt(2); not checked)
            checks.append((f"{k}:meta", z3.BoolVal(V[k].meta != vin.meta)))
        checks.append(("circ:pol_type", z3.BoolVal(V["circ"].pol_type != "circular" or V["lin_circ"].pol_type != "circular")))
        checks.append(("lin:pol_type", z3.BoolVal(V["lin"].pol_type != "linear" or V["circ_lin"].pol_type != "linear")))
        for k in ("stokes", "stokes_circ", "stokes_lin"):
            checks.append((f"{k}:type", z3.BoolVal(V[k].cls is not pb.FullStokesSignal)))
            checks += [(f"{k}:{n}", b) for n, b in meta_checks(S, vin, V[k], what=("sr", "t0", "cf", "bw", "align"))]
        for k in ("inten", "stI", "stQ", "stU", "stV", "stI_attr"):
            checks.append((f"{k}:type", z3.BoolVal(V[k].cls is not pb.IntensitySignal)))
            checks += [(f"{k}:{n}", b) for n, b in meta_checks(S, vin, V[k], what=("sr", "t0", "cf", "bw", "align"))]
        rest = self.shape[3:]
        bad = {k: [] for k in ("to_circular", "to_linear", "roundtrip", "identity", "power", "stokes-formula",
                               "stokes-basis-independent", "stokes-identity", "stokes-I-intensity", "stokes-components")}
        for t in range(self.shape[0]):
            for c in range(self.shape[1]):
                for ex in np.ndindex(*rest):
                    A, B = cterm(z[(t, c, 0) + ex]), cterm(z[(t, c, 1) + ex])

                    def el(name, p):
                        return V[name].elem(t, (c, p) + ex)
                    if self.start == "linear":
                        X, Y = A, B
                        L = cscale(csub(X, cmul(I_UNIT, Y)), inv)
                        R = cscale(cadd(X, cmul(I_UNIT, Y)), inv)
                        bad["to_circular"] += [cneq(S, el("circ", 0), L, tol), cneq(S, el("circ", 1), R, tol)]
                        bad["identity"] += [cneq(S, el("lin", 0), X, tol), cneq(S, el("lin", 1), Y, tol)]
                        bad["roundtrip"] += [cneq(S, el("circ_lin", 0), X, tol), cneq(S, el("circ_lin", 1), Y, tol),
                                             cneq(S, el("lin_circ", 0), L, tol), cneq(S, el("lin_circ", 1), R, tol)]
                        bad["power"].append(neq(S, pw(el("circ", 0)) + pw(el("circ", 1)), pw(X) + pw(Y), tol2))
                    else:
                        L, R = A, B
                        X = cscale(cadd(L, R), inv)
                        Y = cscale(cmul(I_UNIT, csub(L, R)), inv)
                        bad["to_linear"] += [cneq(S, el("lin", 0), X, tol), cneq(S, el("lin", 1), Y, tol)]
                        bad["identity"] += [cneq(S, el("circ", 0), L, tol), cneq(S, el("circ", 1), R, tol)]
                        bad["roundtrip"] += [cneq(S, el("lin_circ", 0), L, tol), cneq(S, el("lin_circ", 1), R, tol),
                                             cneq(S, el("circ_lin", 0), X, tol), cneq(S, el("circ_lin", 1), Y, tol)]
                        bad["power"].append(neq(S, pw(el("lin", 0)) + pw(el("lin", 1)), pw(L) + pw(R), tol2))
                    XY = cmul(conj(X), Y)
                    I, Q, U_, Vv = pw(X) + pw(Y), pw(X) - pw(Y), 2 * XY[0], 2 * XY[1]
                    st = [V["stokes"].elem(t, (c, i) + ex) for i in range(4)]
                    for got, want in zip(st, (I, Q, U_, Vv)):
                        bad["stokes-formula"].append(z3.Or(neq(S, got[0], want, tol2), got[1] != 0))
                    for other in ("stokes_circ", "stokes_lin"):
                        for i in range(4):
                            bad["stokes-basis-independent"].append(neq(S, V[other].elem(t, (c, i) + ex)[0], st[i][0], tol2))
                    i_, q_, u_, v_ = (s[0] for s in st)
                    bad["stokes-identity"].append(z3.Or(neq(S, i_ * i_, q_ * q_ + u_ * u_ + v_ * v_, tol2 * mag * mag * 4),
                                                        i_ < (0 if S.symbolic else -tol2)))
                    inten = V["inten"].elem(t, (c, 0) + ex)[0] + V["inten"].elem(t, (c, 1) + ex)[0]
                    bad["stokes-I-intensity"].append(neq(S, i_, inten, tol2))
                    for i, k in enumerate("IQUV"):
                        bad["stokes-components"].append(V["st" + k].elem(t, (c,) + ex)[0] != st[i][0])
                    bad["stokes-components"].append(V["stI_attr"].elem(t, (c,) + ex)[0] != st[0][0])
        for k, v in bad.items():
            if v:
                checks.append((k, z3.Or(v)))
        return checks

    def compare(self, S, args, out, CS, cargs, cout):
        if isinstance(out, Raised) or isinstance(cout, Raised):
            return compare_signals(S, out, CS, cout)
        pr = []
        for k in ("circ", "lin", "stokes", "inten", "stQ"):
            pr += [f"{k}: {p}" for p in compare_signals(S, out[k], CS, cout[k], rtol=3e-6 if self.c64 else 1e-9)]
        return pr

    def signature(self, label, values, detail):
        return f"polarization:{label}"


def units(tier):
    us = [Pol((1, 1, 2), "linear"), Pol((1, 1, 2), "circular"), Pol((2, 2, 2), "linear", c64=True), Pol((1, 2, 2), "circular", c64=True),
          Pol((1, 1, 2, 2), "linear"), Pol((1, 1, 2, 2), "circular"), Pol((1, 2, 2, 3), "circular", c64=True)]
    if tier != "quick":
        us += [Pol((2, 2, 2), "circular"), Pol((3, 1, 2), "linear"), Pol((1, 2, 2, 3), "linear"), Pol((1, 1, 2, 2, 2), "circular")]
    return us
