"""C08 - polyco prediction equals the tempo formula on every entry's span (partial: concrete polyco texts, symbolic time)."""
import functools
import io
import itertools
import operator
from fractions import Fraction

import astropy.units as u
import numpy as np
import z3
from astropy.time import Time

import pulsarbat as pb
import pulsarbat.pulsar.predictor as PR
import pulsarbat.pulsar.phase as P
from pbsym import core as K
from pbsym.core import SBool, SReal
from pbsym.modes import EPOCH, Raised, term_of_number, time_term
from pbsym.runner import Unit
from pbsym.stubs import NPProxy, UProxy
from pbsym.tarr import SymTime, oq, has_shadow as _has_shadow

from .C07 import parts, phase_patches
from .common import RV, neq, poly_compose_affine, poly_of, poly_term, rterm, zabs

META = {
    "stubs": ["the PhasePredictor table (an astropy QTable holding real Time columns) is replaced by a stand-in `self` whose columns are vectors "
              "of exact-real SymTime / concrete Quantities taken from a predictor parsed by the REAL from_polyco; the real methods "
              "intervals, _get_index_and_dt, __call__, f0, phasepol run unbound on it",
              "array times: a vector of SymTime (elementwise comparisons give object arrays of symbolic booleans; np.searchsorted runs on "
              "object arrays and forks); np.zeros(shape, float64) inside predictor.py returns an object buffer so that the masked assignments keep shadow reals",
              "Phase with object fields (as C07); numpy Polynomial evaluates on shadow reals through its own Horner code",
              "parsing units: the file object is a stream of token lists (line.split() returns the tokens; numeric tokens carry shadow "
              "values, RPHASE is a symbolic decimal string so that partition('.') / '0.' + frac / np.int64('0' + int) run as written); "
              "float/Time/np.array/np.int64 in pulsarbat.pulsar.predictor accept tokens; `cls` is a capture class that orders the "
              "entries by tmid as PhasePredictor.__init__ does and builds the stand-in table"],
    "bounds": {"intervals": "1..3 entries with symbolic mid times (any order, overlapping, touching, disjoint), common symbolic span",
               "parsing": "the real from_polyco on a token stream: layouts (entries x NCOEFF x span) 1x2x60, 1x4x60 quick; + 1x3x30, "
                          "2x2x60, 2x3x60 thorough (NCOEFF >= 5 with symbolic coefficients is not decided reliably); TMID, RPHASE (integer <= 1e12 and six decimals), F0, every coefficient "
                          "symbolic; then __call__ / f0 at a symbolic time against the tempo formula on the symbolic numbers",
               "array_times": "__call__ / f0 on a 1-D array of 2 or 3, or a 2 x 2 (3 x 1, 1 x 3) array of independent symbolic times (any order, same or different entries, inside or "
                              "outside the spans); texts gap, odd (quick: n=2 all, n=3 odd-call and gap-f0, 2x2 odd-call), + timing n=2, the other n=3, 2x2 gap-f0, 3x1 gap-call, 1x3 odd-f0 (thorough)",
               "evaluation": "three concrete polyco texts (the repository's timing.dat; a two-entry text with a gap; a generated text with "
                             "ncoeff not a multiple of 3, D exponents, signed coefficients), every entry, time symbolic over and beyond the spans"},
    "assumptions": ["exact real time and Horner arithmetic; coefficients are the doubles the real parser produced, compared with the exact "
                    "decimals of the text"],
    "outside": ["polyco texts outside the layouts listed (more than two entries with symbolic numbers, blank lines, NCOEFF = 1)", "time_at (SciPy root finder)",
                "float round-off of Horner evaluation and of Time differences", "arrays of more than 4 times or of shapes other than (2,), (3,), (2,2), (3,1), (1,3)"],
}

TEXT_GAP = """B1937+21    7-May-18   93600.00   58245.40000000000   71.020167
 146776323107.982696  641.928232294317   ao  288   12   327.000
  2.53531626087091441e-08  2.71634485209303600e+00 -1.18579224383567124e-04
  2.13006534220737831e-08  1.82945349045995736e-10 -2.17093444265104196e-14
 -1.19143951096548092e-16  8.75742271090786040e-20  6.90038715651136990e-23
 -3.13982943744315582e-24 -4.22839364952768232e-28  5.14827898395789200e-29
B1937+21    7-May-18  163000.00   58246.68750000000   71.020167
 146863589715.610996  641.928232294317   ao  288   12   327.000
 -4.76040685223260378e-07  2.67040349305271674e+00  3.73410078415526979e-05
  1.57043805946084180e-07 -5.08960654800334953e-11 -3.36505250137997982e-13
 -1.89629091176250827e-14  1.96470551312769751e-16  9.40225741785451917e-18
 -9.15695855709336387e-20 -1.59591049042759423e-21  1.52097772879173001e-23
"""
TEXT_ODD = """J0437-4715  1-Jan-20   0.00   58849.00000000000   2.64476
 12345678901.250000  173.687946184718  pks   60    5  1369.000
 -1.25000000000000000D-03  1.50000000000000000D+00 -2.50000000000000000D-04
  3.75000000000000000D-07 -1.00000000000000000D-10
J0437-4715  1-Jan-20  10000.00   58849.04166666667   2.64476
 12346304177.875000  173.687946184718  pks   60    5  1369.000
  2.50000000000000000D-03 -7.50000000000000000D-01  1.25000000000000000D-04
 -5.00000000000000000D-08  2.00000000000000000D-11
"""


def load(which):
    if which == "timing":
        return pb.PhasePredictor.from_polyco("/repo/tests/data/timing.dat"), open("/repo/tests/data/timing.dat").read()
    txt = {"gap": TEXT_GAP, "odd": TEXT_ODD}[which]
    return pb.PhasePredictor.from_polyco(io.StringIO(txt)), txt


def text_entries(txt):
    """exact (decimal) content of a polyco text: list of dict(tmid_mjd, rphase, f0, span_min, coeffs)"""
    lines = txt.splitlines()
    i = 0
    out = []
    while i < len(lines):
        if not lines[i].strip():
            i += 1
            continue
        a = lines[i].split()
        b = lines[i + 1].split()
        n = int(b[4])
        nl = -(-n // 3)
        cs = []
        for l in lines[i + 2:i + 2 + nl]:
            cs += [Fraction(x.replace("D", "e").replace("d", "e")) for x in l.split()]
        out.append({"tmid": Fraction(a[3]), "rphase": Fraction(b[0]), "f0": Fraction(b[1]), "span": int(b[3]), "coeffs": cs[:n]})
        i += 2 + nl
    return out


class TimeVec:
    """vector of SymTime (stand-in for a Time column)"""

    isscalar = False

    def __init__(self, items, shape=None):
        self.items = list(items)               # flat, C order
        self.shp = tuple(shape) if shape is not None else (len(self.items),)

    def __len__(self):
        return self.shp[0]

    @property
    def shape(self):
        return self.shp

    @property
    def ndim(self):
        return len(self.shp)

    def _cmpv(self, o, op):
        # elementwise comparison with a scalar SymTime (as `a <= times` / `times <= b` on a Time array): object array of SBool
        if not isinstance(o, SymTime):
            return NotImplemented
        r = np.empty(len(self.items), dtype=object)
        for k, t in enumerate(self.items):
            r[k] = op(t.sec, o.sec)
        return r.reshape(self.shp)

    def min(self, axis=None, **k):
        from pbsym.stubs import sym_min
        return SymTime(sym_min([t.sec for t in self.items]))

    def max(self, axis=None, **k):
        from pbsym.stubs import sym_max
        return SymTime(sym_max([t.sec for t in self.items]))

    def sort(self, axis=-1):
        raise K.Unsupported("TimeVec.sort") if hasattr(K, "Unsupported") else NotImplementedError("TimeVec.sort")

    def __le__(self, o):
        return self._cmpv(o, operator.le)

    def __ge__(self, o):
        return self._cmpv(o, operator.ge)

    def __lt__(self, o):
        return self._cmpv(o, operator.lt)

    def __gt__(self, o):
        return self._cmpv(o, operator.gt)

    def __iter__(self):
        return iter(self.items)

    def __getitem__(self, i):
        if isinstance(i, (int, np.integer)):
            return self.items[int(i)]
        if isinstance(i, np.ndarray) and i.ndim == 0:
            return self.items[int(i)]
        if self.ndim != 1:
            raise NotImplementedError("indexing a multi-dimensional time vector")
        i = np.asarray(i)
        return TimeVec([self.items[int(k)] for k in np.atleast_1d(i).ravel()], shape=np.atleast_1d(i).shape)

    def _q(self, q):
        v = q.to_value(u.s)
        return np.broadcast_to(np.asarray(v, dtype=object), (len(self.items),))

    def __add__(self, q):
        return TimeVec([SymTime(t.sec + d) for t, d in zip(self.items, self._q(q))])

    def __sub__(self, q):
        if isinstance(q, TimeVec):
            if q.shp != self.shp:
                raise ValueError("shape mismatch")
            r = np.empty(len(self.items), dtype=object)
            for k, (x, y) in enumerate(zip(self.items, q.items)):
                r[k] = x.sec - y.sec
            return u.Quantity(r.reshape(self.shp), u.s, dtype=object)
        if isinstance(q, SymTime):
            r = np.empty(len(self.items), dtype=object)
            for k, x in enumerate(self.items):
                r[k] = x.sec - q.sec
            return u.Quantity(r.reshape(self.shp), u.s, dtype=object)
        return TimeVec([SymTime(t.sec - d) for t, d in zip(self.items, self._q(q))])

    @property
    def mjd(self):
        a = np.empty(len(self.items), dtype=object)
        for k, t in enumerate(self.items):
            a[k] = t.sec / 86400
        return a.reshape(self.shp)


def _mjd(self):
    return self.sec / 86400


class StandIn:
    """duck-typed `self` for the unbound PhasePredictor methods"""

    def __init__(self, cols):
        self.cols = cols
        self._intervals = None

    def __getitem__(self, k):
        if isinstance(k, (int, np.integer)) or (isinstance(k, np.ndarray) and k.ndim == 0 and k.dtype.kind in "iu"):
            # a table row: the very objects held in the columns (as an astropy Row of object columns hands them out)
            return {name: col[int(k)] for name, col in self.cols.items()}
        return self.cols[k]

    intervals = property(lambda self: PR.PhasePredictor.intervals.fget(self))

    def _get_index_and_dt(self, t):
        r = PR.PhasePredictor._get_index_and_dt(self, t)
        # which entry the real code selected on this path (for the oracle); one per element for an array of times
        self.chosen = int(r[0]) if np.ndim(r[0]) == 0 else [int(x) for x in np.asarray(r[0]).ravel()]
        return r


def pred_patches():
    from pbsym.stubs import sym_int
    return phase_patches() + [(PR, "np", NPProxy()), (PR, "u", UProxy()), (PR, "int", sym_int), (SymTime, "mjd", property(_mjd))]


def obj_poly(p):
    """the same numpy Polynomial with object-dtype coefficient/domain arrays (so that in-place shifts by a shadow value work)"""
    from numpy.polynomial import Polynomial
    return Polynomial(np.array(p.coef, dtype=object), domain=np.array(p.domain, dtype=object), window=np.array(p.window, dtype=object))


def sec_of(t):
    """exact seconds since EPOCH of a real Time"""
    d = (Fraction(float(t.jd1)) - Fraction(float(EPOCH.jd1))) + (Fraction(float(t.jd2)) - Fraction(float(EPOCH.jd2)))
    return d * 86400


class Intervals(Unit):
    functions = ("pulsarbat.pulsar.predictor:PhasePredictor.intervals",)
    witnesses = 0
    max_paths = 3000

    def __init__(self, n):
        self.n = n
        self.name = f"intervals-n{n}"
        self.bounds = {"entries": n, "tmid": "symbolic, any order", "span": "symbolic > 2 ms"}

    def patches(self):
        return pred_patches()

    def build(self, S):
        S.time_eps(RV(Fraction(4, 10**11)))          # Time.isclose default tolerance (~2 eps of a day)
        span = S.real("span")
        S.assume(span > Fraction(1, 100))
        S.assume(span < 10**6)
        ts = []
        for k in range(self.n):
            t = S.real(f"t{k}")
            S.assume(t > -10**7)
            S.assume(t < 10**7)
            ts.append(t)
        x = S.real("x")
        S.assume(x > -2 * 10**7)
        S.assume(x < 2 * 10**7)
        return {"ts": ts, "span": span, "x": x, "sym": S.symbolic}

    def call(self, a):
        if a["sym"]:
            tm = TimeVec([SymTime(t) for t in a["ts"]])
            me = StandIn({"tmid": tm, "span": oq(a["span"], u.s)})
            iv = PR.PhasePredictor.intervals.fget(me)
            return [(s.sec, e.sec) for s, e in iv]
        from dataclasses import dataclass
        entries = [PR.PolycoEntry(psr="X", obs="a", freq=1 * u.MHz, tmid=EPOCH + float(t) * u.s, span=float(a["span"]) * u.s, rphase=0,
                                  poly=np.polynomial.Polynomial([0.0, 1.0])) for t in a["ts"]]
        pp = PR.PhasePredictor(entries)
        return [(float(sec_of(s)), float(sec_of(e))) for s, e in pp.intervals]

    def spec(self, S, a, out):
        if isinstance(out, Raised):
            return [("no-exception", z3.BoolVal(True))]
        span = rterm(a["span"])
        ts = [rterm(t) for t in a["ts"]]
        x = rterm(a["x"])
        ms = RV(Fraction(1, 1000))
        iv = [(term_of_number(s), term_of_number(e)) for s, e in out]
        tol = z3.RealVal(0) if S.symbolic else RV(Fraction(1, 10**5))
        # (1) every span is inside some returned interval; (2) returned intervals are sorted, disjoint and more than 1 ms apart;
        # (3) every returned interval starts at a span start and ends at a span end; (4) a point inside a returned interval is within
        # 1 ms of (the hull of) spans chained by gaps <= 1 ms: checked as 'not farther than 1 ms from every span' being impossible
        checks = []
        cover = [z3.Or([z3.And(s <= t - span / 2 + tol, t + span / 2 <= e + tol) for s, e in iv]) for t in ts]
        checks.append(("spans-covered", z3.Not(z3.And(cover))))
        order = [z3.BoolVal(False)]
        for (s1, e1), (s2, e2) in zip(iv, iv[1:]):
            order.append(z3.Not(s2 - e1 > ms - tol))
        for s, e in iv:
            order.append(e < s)
        checks.append(("sorted-disjoint-separated", z3.Or(order)))
        ends = []
        for s, e in iv:
            ends.append(z3.Not(z3.Or([neq(S, s, t - span / 2, 1e-5) == z3.BoolVal(False) if False else (zabs(s - (t - span / 2)) <= tol) for t in ts])))
            ends.append(z3.Not(z3.Or([zabs(e - (t + span / 2)) <= tol for t in ts])))
        checks.append(("interval-ends-are-span-ends", z3.Or(ends)))
        inside_iv = z3.Or([z3.And(s <= x, x <= e) for s, e in iv])
        near_span = z3.Or([z3.And(t - span / 2 - ms - tol <= x, x <= t + span / 2 + ms + tol) for t in ts])
        checks.append(("no-uncovered-time-inside-an-interval", z3.And(inside_iv, z3.Not(near_span))))
        return checks

    def signature(self, label, values, detail):
        return f"polyco:intervals:{label}"


class Evaluate(Unit):
    functions = ("pulsarbat.pulsar.predictor:PhasePredictor._get_index_and_dt", "pulsarbat.pulsar.predictor:PhasePredictor.__call__",
                 "pulsarbat.pulsar.predictor:PhasePredictor.f0", "pulsarbat.pulsar.predictor:PhasePredictor.phasepol",
                 "pulsarbat.pulsar.predictor:PhasePredictor.intervals", "pulsarbat.pulsar.predictor:PhasePredictor.from_polyco")
    witnesses = 0
    max_paths = 2000

    def __init__(self, which, what):
        self.which, self.what = which, what
        self.name = f"eval-{which}-{what}"
        self.bounds = {"polyco_text": which, "method": what, "time": "symbolic, from 2 h before the first span to 2 h after the last"}

    def patches(self):
        return pred_patches()

    def build(self, S):
        S.time_eps(RV(Fraction(4, 10**11)))
        pp, txt = load(self.which)
        ents = text_entries(txt)
        secs = [sec_of(t) for t in pp["tmid"]]                      # what the real parser produced (used by the code under test)
        # what the text says, exactly: TMID is a decimal MJD (UTC; no leap second between the texts' dates and the epoch)
        ep_mjd = Fraction(59277) + Fraction(5 * 3600 + 6 * 60 + 7, 86400)
        secs_txt = sorted((e["tmid"] - ep_mjd) * 86400 for e in ents)
        lo = min(secs) - 7200 - 60 * max(e["span"] for e in ents)
        hi = max(secs) + 7200 + 60 * max(e["span"] for e in ents)
        t = S.real("t")
        S.assume(t > lo)
        S.assume(t < hi)
        return {"pp": pp, "ents": sorted(ents, key=lambda e: e["tmid"]), "secs": secs, "secs_txt": secs_txt, "t": t, "sym": S.symbolic}

    def call(self, a):
        pp = a["pp"]
        if a["sym"]:
            me = StandIn({"tmid": TimeVec([SymTime(K.realval(s)) for s in a["secs"]]), "span": pp["span"], "rphase": np.asarray(pp["rphase"]),
                          "poly": [obj_poly(q) for q in pp["poly"]] if self.what == "phasepol" else list(pp["poly"])})
            tt = SymTime(a["t"])
            cls = PR.PhasePredictor
        else:
            me = pp
            tt = EPOCH + a["t"] * u.s
            cls = None
        a["me"] = me
        if self.what == "call":
            return (cls.__call__(me, tt) if cls else me(tt))
        if self.what == "f0":
            return [(cls.f0(me, tt, n) if cls else me.f0(tt, n)) for n in (0, 1)]
        if self.what == "phasepol":
            before = [(list(np.asarray(q.coef, dtype=object)), list(np.asarray(q.domain, dtype=object))) for q in me["poly"]]
            pol, ref = (cls.phasepol(me, tt) if cls else me.phasepol(tt))
            after = [(list(np.asarray(q.coef, dtype=object)), list(np.asarray(q.domain, dtype=object))) for q in me["poly"]]
            return {"pol": pol, "ref": ref, "at0": pol(0.0), "at": [pol(x) for x in (1.5, -2.0)], "table": (before, after)}

    def _bound_checks(self, S, a, label, d, k, tol, inside_any):
        """|d(t)| <= tol on the span of entry k (plus the 1 ms merging slack), for d a polynomial in t: the difference polynomial is
        expanded exactly (rational coefficients), rescaled to y in [-1, 1] and decided as a single univariate polynomial inequality"""
        tvar = a["t"].e
        pol = poly_of(d, tvar)
        s, hs = a["secs_txt"][k], Fraction(30 * a["ents"][k]["span"]) + Fraction(1, 1000)
        if pol is None:
            return [(label + ":hi", z3.And(inside_any, d > tol)), (label + ":lo", z3.And(inside_any, -d > tol))]
        py = poly_compose_affine(pol, s, hs)
        y = z3.Real("y_scaled")
        P_ = poly_term(py, y)
        link = z3.And(tvar == RV(s) + RV(hs) * y, y >= -1, y <= 1)
        return [(label + ":hi", z3.And(link, P_ > tol)), (label + ":lo", z3.And(link, -P_ > tol))]

    def _formula(self, ent, dt_s, deriv=0):
        """tempo formula (cycles) or its derivative w.r.t. time in seconds, DT in minutes = dt_s/60, exact decimal coefficients"""
        DT = dt_s / 60
        cs = list(ent["coeffs"])
        poly = [ent["rphase"] + cs[0], 60 * ent["f0"] + (cs[1] if len(cs) > 1 else 0)] + cs[2:]
        for _ in range(deriv):
            poly = [k * c for k, c in enumerate(poly)][1:]
        acc = z3.RealVal(0)
        for c in reversed(poly):
            acc = acc * DT + RV(Fraction(c))
        return acc / (RV(60) ** deriv)

    def spec(self, S, a, out):
        t = rterm(a["t"]) if S.symbolic else RV(sec_of(EPOCH + a["t"] * u.s))      # (concrete: the time the Time object really holds)
        ents, secs = a["ents"], a["secs_txt"]
        ms = RV(Fraction(1, 1000))
        half = [RV(Fraction(30 * e["span"])) for e in ents]
        # the parsed mid times must be the text's (to well below 1e-8 cycles at any spin frequency: 1e-9 s)
        tm_bad = len(a["secs"]) != len(secs) or any(abs(x - y) > Fraction(1, 10**9) for x, y in zip(sorted(a["secs"]), secs))
        # slack at the span edges: 1e-9 s in exact arithmetic (the parsed mid times may differ from the text by that much),
        # 1e-5 s in concrete runs (Time rounding)
        sl = RV(Fraction(2, 10**9)) if S.symbolic else RV(Fraction(1, 10**5))
        inside_any = z3.Or([z3.And(t >= RV(s) - h + sl, t <= RV(s) + h - sl) for s, h in zip(secs, half)])
        if isinstance(out, Raised):
            # allowed only outside every span (beyond the 1 ms merging tolerance nothing may be refused inside a span)
            return [("parsed-TMID-equals-text", z3.BoolVal(tm_bad)), ("raises-only-outside-spans", inside_any),
                    ("raises-ValueError", z3.BoolVal(out.cls is not ValueError))]
        # returned normally: the time must lie in the merged intervals = within a span, or in a gap of <= 1 ms between spans
        in_gap = z3.BoolVal(False)
        ss = sorted(zip(secs, [Fraction(30 * e["span"]) for e in ents]))
        for (s1, h1), (s2, h2) in zip(ss, ss[1:]):
            if (s2 - h2) - (s1 + h1) <= Fraction(1, 1000):
                in_gap = z3.Or(in_gap, z3.And(t >= RV(s1 + h1), t <= RV(s2 - h2)))
        near_any = z3.Or([z3.And(t >= RV(s) - h - sl, t <= RV(s) + h + sl) for s, h in zip(secs, half)])
        checks = [("parsed-TMID-equals-text", z3.BoolVal(tm_bad)), ("must-raise-outside-spans", z3.Not(z3.Or(near_any, in_gap)))]
        tolp = RV(Fraction(1, 10**8))
        if self.what == "call":
            if not isinstance(out, P.Phase):
                return checks + [("returns-Phase", z3.BoolVal(True))]
            (ri, rf), = parts(S, out)
            total = z3.simplify(ri + rf)          # (the normalisation's floor terms cancel in the sum)
            k = getattr(a.get("me"), "chosen", None) if S.symbolic else None
            if k is not None:
                # the real code picked entry k on this path: its span must contain t, and the value must be its tempo formula
                e, s, h = ents[k], secs[k], half[k]
                d = total - self._formula(e, t - RV(s))
                checks.append(("entry-span-contains-t", z3.And(inside_any, z3.Or(t < RV(s) - h - ms, t > RV(s) + h + ms))))
                checks += self._bound_checks(S, a, "tempo-formula", d, k, tolp, inside_any)
            else:
                alts = []
                for e, s, h in zip(ents, secs, half):
                    d = total - self._formula(e, t - RV(s))
                    alts.append(z3.And(t >= RV(s) - h - ms, t <= RV(s) + h + ms, d <= tolp, -d <= tolp))
                checks.append(("tempo-formula-of-an-entry-whose-span-contains-t", z3.And(inside_any, z3.Not(z3.Or(alts)))))
        elif self.what == "f0":
            for n, q in enumerate(out):
                v = term_of_number(q.to_value(u.cycle / u.s ** (n + 1)))
                k = getattr(a.get("me"), "chosen", None) if S.symbolic else None
                if k is not None:
                    w = self._formula(ents[k], t - RV(secs[k]), deriv=n + 1)
                    tol = RV(Fraction(1, 10**9)) * (RV(700) if n == 0 else RV(Fraction(1, 10**6)))     # 1e-9 relative to the scale of f0 / f1
                    checks += self._bound_checks(S, a, f"derivative-{n + 1}", v - w, k, tol, inside_any)
                else:
                    alts = []
                    for e, s, h in zip(ents, secs, half):
                        w = self._formula(e, t - RV(s), deriv=n + 1)
                        tol = zabs(w) * RV(Fraction(1, 10**9)) + RV(Fraction(1, 10**18))
                        alts.append(z3.And(t >= RV(s) - h - ms, t <= RV(s) + h + ms, v - w <= tol, w - v <= tol))
                    checks.append((f"derivative-{n + 1}", z3.And(inside_any, z3.Not(z3.Or(alts)))))
        elif self.what == "phasepol":
            (ri, rf), = parts(S, out["ref"])
            ref = z3.simplify(ri + rf)
            for x, v in zip((0.0, 1.5, -2.0), [out["at0"]] + out["at"]):
                val = term_of_number(v)
                k = getattr(a.get("me"), "chosen", None) if S.symbolic else None
                if k is not None:
                    d = ref + val - self._formula(ents[k], t + RV(Fraction(x)) - RV(secs[k]))
                    checks += self._bound_checks(S, a, f"phasepol-reproduces-prediction-at-{x}", d, k, tolp * 10, inside_any)
                else:
                    alts = []
                    for e, s, h in zip(ents, secs, half):
                        d = ref + val - self._formula(e, t + RV(Fraction(x)) - RV(s))
                        alts.append(z3.And(t >= RV(s) - h - ms, t <= RV(s) + h + ms, d <= tolp * 10, -d <= tolp * 10))
                    checks.append((f"phasepol-reproduces-prediction-at-{x}", z3.And(inside_any, z3.Not(z3.Or(alts)))))
            v0 = term_of_number(out["at0"])
            checks.append(("phasepol-fraction-at-reference", z3.And(inside_any, z3.Or(v0 < -tolp, v0 > 1 + tolp))))
            # the predictor itself must be left as it was (its stored polynomials are shared with later calls)
            before, after = out["table"]
            changed = [z3.BoolVal(len(before) != len(after))]
            for (c0, d0), (c1, d1) in zip(before, after):
                changed.append(z3.BoolVal(len(c0) != len(c1) or len(d0) != len(d1)))
                for x, y in zip(c0 + d0, c1 + d1):
                    changed.append(term_of_number(x) != term_of_number(y))
            checks.append(("phasepol-leaves-predictor-unchanged", z3.Or(changed)))
        return checks

    def signature(self, label, values, detail):
        return f"polyco:{self.what}:{label}"


class ObjBuf(np.ndarray):
    """object-dtype result buffer; `buf * unit` keeps the shadow elements (astropy would cast an object array to float)"""

    def __mul__(self, o):
        if isinstance(o, u.UnitBase):
            return u.Quantity(np.asarray(self).view(np.ndarray), o, dtype=object)
        return np.ndarray.__mul__(self, o)


class VecNP(NPProxy):
    """np proxy for array-valued times: result buffers that the real code creates with np.zeros(..., float64) and fills by masked
    assignment hold shadow reals (object elements; an element never filled stays 0)"""

    def zeros(self, shape, dtype=float, **k):
        if K.Ctx.cur is not None and np.dtype(dtype).kind == "f":
            a = np.empty(shape, dtype=object).view(ObjBuf)
            a[...] = 0.0
            return a
        return np.zeros(shape, dtype=dtype, **k)

    def full(self, shape, fill_value, dtype=None, **k):
        if K.Ctx.cur is not None and _has_shadow(fill_value):
            a = np.empty(shape, dtype=object)
            a[...] = fill_value
            return a
        return np.full(shape, fill_value, dtype=dtype, **k)


class EvaluateVec(Evaluate):
    """__call__ / f0 on an ARRAY of times (two symbolic times, in any order, in the same or different entries): every element
    must be the tempo formula of an entry whose span contains that element's own time"""
    witnesses = 0
    max_paths = 4000

    def __init__(self, which, what, n=2, shape=None):
        self.which, self.what, self.n = which, what, n
        self.shape = tuple(shape) if shape else (n,)
        self.name = f"evalvec{n}-{which}-{what}" + ("-" + "x".join(map(str, self.shape)) if shape else "")
        self.bounds = {"polyco_text": which, "method": what, "times": f"array of shape {self.shape} of {n} symbolic times, any order, each from "
                       "2 h before the first span to 2 h after the last"}

    def patches(self):
        from pbsym.stubs import sym_int
        return phase_patches() + [(PR, "np", VecNP()), (PR, "u", UProxy()), (PR, "int", sym_int), (SymTime, "mjd", property(_mjd))]

    def build(self, S):
        a = Evaluate.build(self, S)
        ts = [a["t"]]
        lo = min(a["secs"]) - 7200 - 60 * max(e["span"] for e in a["ents"])
        hi = max(a["secs"]) + 7200 + 60 * max(e["span"] for e in a["ents"])
        for k in range(1, self.n):
            t = S.real(f"t{k}")
            S.assume(t > lo)
            S.assume(t < hi)
            ts.append(t)
        a["ts"] = ts
        return a

    def call(self, a):
        pp = a["pp"]
        if a["sym"]:
            me = StandIn({"tmid": TimeVec([SymTime(K.realval(s)) for s in a["secs"]]), "span": pp["span"], "rphase": np.asarray(pp["rphase"]),
                          "poly": list(pp["poly"])})
            tt = TimeVec([SymTime(t) for t in a["ts"]], shape=self.shape)
            cls = PR.PhasePredictor
        else:
            me = pp
            tt = EPOCH + np.array([float(t) for t in a["ts"]]).reshape(self.shape) * u.s
            cls = None
        a["me"], a["tt"] = me, tt
        if self.what == "call":
            return (cls.__call__(me, tt) if cls else me(tt))
        return [(cls.f0(me, tt, n) if cls else me.f0(tt, n)) for n in (0, 1)]

    def spec(self, S, a, out):
        n = self.n
        if S.symbolic:
            ts = [rterm(t) for t in a["ts"]]
        else:
            ts = [RV(sec_of(a["tt"].ravel()[k])) for k in range(n)]
        ents, secs = a["ents"], a["secs_txt"]
        ms = RV(Fraction(1, 1000))
        half = [RV(Fraction(30 * e["span"])) for e in ents]
        tm_bad = len(a["secs"]) != len(secs) or any(abs(x - y) > Fraction(1, 10**9) for x, y in zip(sorted(a["secs"]), secs))
        sl = RV(Fraction(2, 10**9)) if S.symbolic else RV(Fraction(1, 10**5))
        inside = [z3.Or([z3.And(t >= RV(s) - h + sl, t <= RV(s) + h - sl) for s, h in zip(secs, half)]) for t in ts]
        all_inside = z3.And(inside)
        if isinstance(out, Raised):
            return [("parsed-TMID-equals-text", z3.BoolVal(tm_bad)), ("raises-only-if-some-time-outside-spans", all_inside),
                    ("raises-ValueError", z3.BoolVal(out.cls is not ValueError))]
        ss = sorted(zip(secs, [Fraction(30 * e["span"]) for e in ents]))
        ok_each = []
        for t in ts:
            in_gap = z3.BoolVal(False)
            for (s1, h1), (s2, h2) in zip(ss, ss[1:]):
                if (s2 - h2) - (s1 + h1) <= Fraction(1, 1000):
                    in_gap = z3.Or(in_gap, z3.And(t >= RV(s1 + h1), t <= RV(s2 - h2)))
            ok_each.append(z3.Or(in_gap, z3.Or([z3.And(t >= RV(s) - h - sl, t <= RV(s) + h + sl) for s, h in zip(secs, half)])))
        checks = [("parsed-TMID-equals-text", z3.BoolVal(tm_bad)), ("must-raise-when-a-time-is-outside-spans", z3.Not(z3.And(ok_each)))]
        tolp = RV(Fraction(1, 10**8))
        chosen = getattr(a.get("me"), "chosen", None) if S.symbolic else None
        if chosen is not None and (not isinstance(chosen, list) or len(chosen) != n):
            return checks + [("one-entry-per-time", z3.BoolVal(True))]

        def per_element(label, k, value, deriv, tol_fixed):
            t = ts[k]
            ak = dict(a)
            if S.symbolic:
                ak["t"] = a["ts"][k]
            if chosen is not None:
                j = chosen[k]
                e, s, h = ents[j], secs[j], half[j]
                d = value - self._formula(e, t - RV(s), deriv=deriv)
                cs = []
                if deriv == 0:
                    cs.append((f"{label}[{k}]:entry-span-contains-its-time", z3.And(all_inside, z3.Or(t < RV(s) - h - ms, t > RV(s) + h + ms))))
                return cs + self._bound_checks(S, ak, f"{label}[{k}]", d, j, tol_fixed, all_inside)
            alts = []
            for e, s, h in zip(ents, secs, half):
                w = self._formula(e, t - RV(s), deriv=deriv)
                tol = tol_fixed if deriv == 0 else zabs(w) * RV(Fraction(1, 10**9)) + RV(Fraction(1, 10**18))
                alts.append(z3.And(t >= RV(s) - h - ms, t <= RV(s) + h + ms, value - w <= tol, w - value <= tol))
            return [(f"{label}[{k}]", z3.And(all_inside, z3.Not(z3.Or(alts))))]

        if self.what == "call":
            if not isinstance(out, P.Phase) or out.shape != self.shape:
                return checks + [("returns-Phase-of-the-times-shape", z3.BoolVal(True))]
            for k, (ri, rf) in enumerate(parts(S, out)):
                checks += per_element("tempo-formula", k, z3.simplify(ri + rf), 0, tolp)
        else:
            for m, q in enumerate(out):
                v = np.atleast_1d(np.asarray(q.to_value(u.cycle / u.s ** (m + 1)), dtype=object)).ravel()
                if len(v) != n or np.shape(q) != self.shape:
                    checks.append((f"derivative-{m + 1}-has-the-times-shape", z3.BoolVal(True)))
                    continue
                tol = RV(Fraction(1, 10**9)) * (RV(700) if m == 0 else RV(Fraction(1, 10**6)))
                for k in range(n):
                    checks += per_element(f"derivative-{m + 1}", k, term_of_number(v[k]), m + 1, tol)
        return checks

    def signature(self, label, values, detail):
        return f"polyco-vec:{self.what}:{label}"


def units(tier):
    us = [Intervals(n) for n in ((1, 2, 3) if tier == "quick" else (1, 2, 3, 4))]
    for which in ("timing", "gap", "odd"):
        for what in ("call", "f0", "phasepol"):
            if tier == "quick" and which == "timing" and what == "phasepol":
                continue          # (many entries x degree-11 composition: ~80 s, thorough tier)
            us.append(Evaluate(which, what))
    for which in (("gap", "odd") if tier == "quick" else ("gap", "odd", "timing")):
        for what in ("call", "f0"):
            us.append(EvaluateVec(which, what, 2))
    # three times: the first and last can share an entry while the middle one lies in another
    us.append(EvaluateVec("odd", "call", 3))
    us.append(EvaluateVec("gap", "f0", 3))
    # a 2-D array of times (2 x 2; thorough also 3 x 1 and 1 x 3)
    us.append(EvaluateVec("odd", "call", 4, shape=(2, 2)))
    if tier != "quick":
        us.append(EvaluateVec("gap", "call", 3))
        us.append(EvaluateVec("odd", "f0", 3))
        us.append(EvaluateVec("gap", "f0", 4, shape=(2, 2)))
        us.append(EvaluateVec("gap", "call", 3, shape=(3, 1)))
        us.append(EvaluateVec("odd", "f0", 3, shape=(1, 3)))
    from . import C08_parse
    us += C08_parse.units(tier)
    return us
