"""C17 - elementwise NumPy operations on signals equal the same operations on their data."""
import itertools
from fractions import Fraction

import astropy.units as u
import numpy as np
import z3

import pulsarbat as pb
from pbsym import core as K
from pbsym.core import SBool
from pbsym.modes import Raised, SigView, cterm, qterm, term_of_number
from pbsym.runner import Unit
from pbsym.stubs import standard_patches
from pbsym.symnd import SymND, plain

from .common import RV, cneq, neq, rterm

META = {
    "stubs": ["E-arrays (NumPy object loops call the shadow values' operators); np proxy; SymTime; object Quantities"],
    "bounds": {"ufuncs": "add, subtract, multiply, true_divide, floor_divide, remainder, negative, positive, conjugate, square, absolute, "
               "rint, floor, ceil, minimum, maximum, the six comparisons, and a two-output ufunc built with numpy.frompyfunc (NumPy's own two-output ufuncs have no object loop) - an enumerated list",
               "operands": "signal-signal (distinct symbolic metadata), signal-array, array-signal, signal-scalar, scalar-signal, "
                           "signal-Quantity, Quantity-signal; out= (signal, tuple of signals, plain array), in-place operators; shapes (2,) and (2,2)",
               "classes": "Signal, IntensitySignal, BasebandSignal, DualPolarizationSignal"},
    "assumptions": ["exact real arithmetic; the solver contributes the for-all over sample values and metadata only - the set of ufuncs is enumerated"],
    "outside": ["ufuncs without object loops (trigonometric, exp/log, modf ...)", "Dask data"],
}

UNARY = {"negative": np.negative, "positive": np.positive, "conjugate": np.conjugate, "square": np.square, "absolute": np.absolute,
         "rint": np.rint, "floor": np.floor, "ceil": np.ceil}
BINARY = {"add": np.add, "subtract": np.subtract, "multiply": np.multiply, "true_divide": np.true_divide,
          "floor_divide": np.floor_divide, "remainder": np.remainder, "minimum": np.minimum, "maximum": np.maximum}
# a two-output ufunc that has an object loop (NumPy's own two-output ufuncs - divmod, modf, frexp - have none):
PAIR = np.frompyfunc(lambda x, y: (x + y, x - y), 2, 2)
COMPARE = {"less": np.less, "less_equal": np.less_equal, "greater": np.greater, "greater_equal": np.greater_equal,
           "equal": np.equal, "not_equal": np.not_equal}


def mk_signal(S, cls, name, shape, sr_unit=u.kHz, int_data=False):
    cplx = issubclass(cls, pb.BasebandSignal)
    if int_data:
        raw_ = S.iarray(name, shape, -20, 20)
        data = SymND(raw_, np.int64) if S.symbolic else np.asarray(raw_, dtype=np.int64)
    else:
        data = S.carray(name, shape) if cplx else S.rarray(name, shape)
    sr, t0 = S.real(name + "_sr"), S.real(name + "_t0")
    S.assume(sr > Fraction(1, 100))
    S.assume(sr < 10**6)
    S.assume(t0 > -10**6)
    S.assume(t0 < 10**6)
    kw = dict(sample_rate=S.quantity(sr, sr_unit), start_time=S.time(t0), meta={"who": name})
    if issubclass(cls, pb.RadioSignal):
        cf = S.real(name + "_cf")
        S.assume(cf > 1)
        S.assume(cf < 10**6)
        kw.update(center_freq=S.quantity(cf, u.MHz), freq_align="top")
        if not cplx:
            kw["chan_bw"] = S.quantity(sr, sr_unit)
    if cls is pb.DualPolarizationSignal:
        kw["pol_type"] = "circular" if name == "a" else "linear"
    return cls(data, **kw)


def same_meta(S, ref, got, tag):
    vr, vg = SigView(ref), SigView(got)
    bad = [(tag + "type", z3.BoolVal(type(got) is not type(ref))), (tag + "sample_rate", neq(S, vg.sr, vr.sr, 1e-6)),
           (tag + "sample_rate-unit", z3.BoolVal(got.sample_rate.unit != ref.sample_rate.unit)),
           (tag + "start_time", z3.BoolVal((vg.t0 is None) != (vr.t0 is None)) if (vg.t0 is None or vr.t0 is None) else neq(S, vg.t0, vr.t0, 1e-9)),
           (tag + "meta", z3.BoolVal(got.meta != ref.meta))]
    for nm in ("cf", "bw"):
        if getattr(vr, nm) is not None:
            bad.append((tag + nm, z3.BoolVal(True) if getattr(vg, nm) is None else neq(S, getattr(vg, nm), getattr(vr, nm), 1e-6)))
    for nm in ("align", "pol_type"):
        if getattr(vr, nm) is not None:
            bad.append((tag + nm, z3.BoolVal(getattr(vg, nm) != getattr(vr, nm))))
    return bad


def same_values(S, got, want, tag, tol=1e-9):
    gu = got.unit if isinstance(got, u.Quantity) else None
    wu = want.unit if isinstance(want, u.Quantity) else None
    if gu != wu:
        return [(tag + "unit", z3.BoolVal(True))]
    g = np.asarray(plain(got.value if isinstance(got, u.Quantity) else got), dtype=object)
    w = np.asarray(plain(want.value if isinstance(want, u.Quantity) else want), dtype=object)
    if g.shape != w.shape:
        return [(tag + "shape", z3.BoolVal(True))]
    bad = []
    for ix in np.ndindex(*g.shape):
        a, b = g[ix], w[ix]
        if isinstance(a, SBool) or isinstance(b, SBool) or isinstance(a, (bool, np.bool_)):
            ea = a.e if isinstance(a, SBool) else z3.BoolVal(bool(a))
            eb = b.e if isinstance(b, SBool) else z3.BoolVal(bool(b))
            bad.append(ea != eb)
        else:
            bad.append(cneq(S, cterm(a), cterm(b), tol))
    return [(tag + "values", z3.Or(bad) if bad else z3.BoolVal(False))]


def raw(x):
    return x.data if isinstance(x, pb.Signal) else x


class Ufunc(Unit):
    functions = ("pulsarbat.core:Signal.__array_ufunc__", "pulsarbat.core:Signal.like", "pulsarbat.core:Signal.__array__")
    witnesses = 0

    def __init__(self, cls, fname, arrangement, shape=(2,), int_data=False):
        self.cls, self.fname, self.arr, self.shape, self.int_data = cls, fname, arrangement, tuple(shape), int_data
        self.name = f"ufunc-{cls.__name__}-{fname}-{arrangement}-{'x'.join(map(str, shape))}" + ("-int" if int_data else "")
        self.bounds = {"class": cls.__name__, "ufunc": fname, "operands": arrangement, "shape": list(shape)}

    def _shape(self):
        pre = {pb.Signal: (), pb.IntensitySignal: (1,), pb.BasebandSignal: (1,), pb.DualPolarizationSignal: (1, 2)}[self.cls]
        return self.shape[:1] + pre + self.shape[1:]

    def build(self, S):
        shp = self._shape()
        a = mk_signal(S, self.cls, "a", shp, int_data=self.int_data)
        b = mk_signal(S, self.cls, "b", shp, sr_unit=u.Hz, int_data=self.int_data)
        cplx = issubclass(self.cls, pb.BasebandSignal)
        arr = S.carray("c", shp) if cplx else S.rarray("c", shp)
        w = S.real("w")
        S.assume(w > Fraction(1, 2))
        S.assume(w < 100)
        r = {"a": a, "b": b, "arr": arr, "w": w, "q": S.quantity(w, u.one), "qm": S.quantity(w, u.m), "qp": S.quantity(w, u.percent)}
        if self.arr in ("sig-sub", "sub-sig"):
            # a second signal of a strict SUBCLASS of the first one's class (NumPy hands the call to the subclass first)
            r["sub"] = mk_signal(S, pb.RadioSignal if self.cls is pb.Signal else pb.IntensitySignal, "c2", shp, sr_unit=u.Hz)
        return r

    def operands(self, a):
        A = self.arr
        return {"sig": (a["a"],), "sig-sig": (a["a"], a["b"]), "sig-arr": (a["a"], a["arr"]), "arr-sig": (a["arr"], a["b"]),
                "sig-scalar": (a["a"], a["w"]), "scalar-sig": (a["w"], a["b"]), "sig-q": (a["a"], a["q"]), "q-sig": (a["qm"], a["b"]),
                # (a Quantity whose unit carries a numeric scale: 50 % is 0.5)
                "sig-qp": (a["a"], a["qp"]), "qp-sig": (a["qp"], a["b"]),
                "sig-sub": (a["a"], a.get("sub")), "sub-sig": (a.get("sub"), a["b"]),
                "out-sig": (a["a"], a["b"]), "out-arr": (a["a"], a["b"]), "inplace": (a["a"], a["b"]), "out-tuple": (a["a"], a["w"])}[A]

    def call(self, a):
        ops = self.operands(a)
        f = {**UNARY, **BINARY, **COMPARE, "pair": PAIR}[self.fname]
        first = next(x for x in ops if isinstance(x, pb.Signal))
        want = f(*[raw(x) for x in ops])
        if self.arr == "out-sig":
            tgt = self.cls.like(a["b"], np.array(plain(a["b"].data), dtype=object).view(type(a["b"].data)) if False else a["b"].data.copy())
            r = f(*ops, out=tgt)
            return {"got": r, "want": want, "first": tgt, "identity": r is tgt, "kind": "out"}
        if self.arr == "out-arr":
            buf = a["arr"].copy()
            r = f(*ops, out=buf)
            return {"got": r, "want": want, "identity": r is buf, "kind": "out-array"}
        if self.arr == "out-tuple":
            t1 = self.cls.like(a["a"], a["a"].data.copy())
            t2 = self.cls.like(a["b"], a["b"].data.copy())
            r = f(*ops, out=(t1, t2))
            return {"got": r, "want": want, "identity": (r[0] is t1 and r[1] is t2), "firsts": (t1, t2), "kind": "out-tuple"}
        if self.arr == "inplace":
            tgt = self.cls.like(a["a"], a["a"].data.copy())
            ref_id = tgt
            if self.fname == "add":
                tgt += a["b"]
            elif self.fname == "subtract":
                tgt -= a["b"]
            elif self.fname == "multiply":
                tgt *= a["b"]
            else:
                tgt /= a["b"]
            return {"got": tgt, "want": want, "first": a["a"], "identity": tgt is ref_id, "kind": "out"}
        r = f(*ops)
        return {"got": r, "want": want, "first": first, "kind": "plain"}

    def spec(self, S, a, out):
        if isinstance(out, Raised):
            return [("no-exception", z3.BoolVal(True))]
        checks = []
        kind = out["kind"]
        got, want = out["got"], out["want"]
        if kind == "out-array":
            checks.append(("out-array-returned", z3.BoolVal(not out["identity"] or isinstance(got, pb.Signal))))
            checks += same_values(S, got, want, "")
            return checks
        if kind == "out-tuple":
            checks.append(("out-objects-returned", z3.BoolVal(not out["identity"])))
            for i in range(2):
                checks += same_values(S, got[i].data, want[i], f"out{i}:")
                checks += same_meta(S, out["firsts"][i], got[i], f"out{i}:")
            return checks
        if self.fname == "pair":
            ok = isinstance(got, tuple) and len(got) == 2 and all(isinstance(g, pb.Signal) for g in got)
            checks.append(("one-signal-per-output", z3.BoolVal(not ok)))
            if ok:
                for i in range(2):
                    checks += same_values(S, got[i].data, want[i], f"out{i}:")
                    checks += same_meta(S, out["first"], got[i], f"out{i}:")
            return checks
        checks.append(("returns-signal", z3.BoolVal(not isinstance(got, pb.Signal))))
        if not isinstance(got, pb.Signal):
            return checks
        if kind == "out":
            checks.append(("out-object-returned", z3.BoolVal(not out["identity"])))
        checks += same_values(S, got.data, want, "")
        if not S.symbolic and hasattr(want, "dtype") and hasattr(got.data, "dtype"):
            checks.append(("dtype", z3.BoolVal(np.dtype(got.data.dtype) != np.dtype(want.dtype))))
        checks += same_meta(S, out["first"], got, "")
        return checks

    def signature(self, label, values, detail):
        return f"ufunc:{self.arr}:{label}"


class Refused(Unit):
    """reductions, accumulations, outer, at, matmul are refused; np.asarray/np.array (optionally with dtype) give the data"""
    functions = ("pulsarbat.core:Signal.__array_ufunc__", "pulsarbat.core:Signal.__array__", "pulsarbat.core:Signal.__len__")
    witnesses = 0

    def __init__(self, cls):
        self.cls = cls
        self.name = f"refused-and-conversion-{cls.__name__}"
        self.bounds = {"class": cls.__name__}

    def build(self, S):
        pre = {pb.Signal: (), pb.IntensitySignal: (1,), pb.BasebandSignal: (1,), pb.DualPolarizationSignal: (1, 2)}[self.cls]
        return {"a": mk_signal(S, self.cls, "a", (2,) + pre), "sym": S.symbolic}

    def call(self, a):
        z = a["a"]
        res = {}
        trials = {"reduce": lambda: np.add.reduce(z), "accumulate": lambda: np.add.accumulate(z), "outer": lambda: np.multiply.outer(z, z),
                  "at": lambda: np.add.at(z, [0], 1), "matmul": lambda: np.matmul(z, z), "reduceat": lambda: np.add.reduceat(z, [0]),
                  "sum": lambda: np.sum(z), "matmul-op": lambda: z @ z}
        for k, f in trials.items():
            try:
                f()
                res[k] = "returned"
            except TypeError:
                res[k] = "TypeError"
            except Exception as e:
                res[k] = type(e).__name__
        conv = {}
        cplx = issubclass(self.cls, pb.BasebandSignal)
        tgt = np.complex128 if cplx else np.float64
        if a["sym"]:
            # NumPy cannot hold shadow values in a numeric dtype: exercise the conversion protocol method that np.asarray calls
            with_dtype = {"asarray-dtype": lambda: z.__array__(tgt), "array-dtype": lambda: z.__array__(dtype=tgt, copy=None)}
        else:
            with_dtype = {"asarray-dtype": lambda: np.asarray(z, dtype=tgt), "array-dtype": lambda: np.array(z, dtype=tgt)}
        if not cplx:
            # a dtype of another kind (float data asked for as integers): NumPy's own unsafe cast, not a refusal
            with_dtype["asarray-int"] = (lambda: z.__array__(np.int64)) if a["sym"] else (lambda: np.asarray(z, dtype=np.int64))
        for k, f in {"asarray": lambda: np.asarray(z), "array": lambda: np.array(z), **with_dtype, "len": lambda: len(z)}.items():
            try:
                conv[k] = f()
            except Exception as e:
                conv[k] = e
        return {"refused": res, "conv": conv}

    def spec(self, S, a, out):
        if isinstance(out, Raised):
            return [("no-exception", z3.BoolVal(True))]
        checks = [(f"{k}-refused", z3.BoolVal(v != "TypeError")) for k, v in out["refused"].items()]
        z = a["a"]
        for k, v in out["conv"].items():
            if k == "len":
                checks.append(("len", z3.BoolVal(v != z.shape[0])))
            elif isinstance(v, Exception):
                checks.append((f"{k}-yields-data", z3.BoolVal(True)))
            else:
                checks.append((f"{k}-is-array", z3.BoolVal(isinstance(v, pb.Signal) or not isinstance(v, np.ndarray))))
                if k == "asarray-int":
                    # (the np stand-in does not model the dtype argument on shadow arrays: values compared in concrete runs only)
                    if not S.symbolic:
                        checks += same_values(S, v, z.data.astype(np.int64), f"{k}:")
                else:
                    checks += same_values(S, v, z.data, f"{k}:")
        return checks

    def signature(self, label, values, detail):
        return f"conversion:{label}"


def units(tier):
    us = []
    for cls in (pb.Signal, pb.IntensitySignal):
        for fn in UNARY:
            us.append(Ufunc(cls, fn, "sig", (2, 2) if cls is pb.Signal else (2,)))
        for fn in BINARY:
            for arr in ("sig-sig", "sig-arr", "arr-sig", "sig-scalar", "scalar-sig"):
                if fn in ("minimum", "maximum", "floor_divide", "remainder") and arr not in ("sig-sig", "arr-sig"):
                    continue
                if tier == "quick" and cls is pb.IntensitySignal and arr not in ("sig-sig", "scalar-sig"):
                    continue
                us.append(Ufunc(cls, fn, arr))
        for fn in ("multiply", "add", "true_divide"):
            us.append(Ufunc(cls, fn, "sig-q"))
        us.append(Ufunc(cls, "multiply", "q-sig"))
        for fn in ("add", "subtract", "less"):
            us.append(Ufunc(cls, fn, "sig-qp"))
        us.append(Ufunc(cls, "greater", "qp-sig"))
        if cls is pb.Signal:
            # operands of different signal classes: the result follows the FIRST signal operand, also when the second is a subclass
            for fn in ("add", "multiply", "less"):
                us.append(Ufunc(cls, fn, "sig-sub", (2, 2)))
            us.append(Ufunc(cls, "subtract", "sub-sig", (2, 2)))
        us.append(Ufunc(cls, "add", "qp-sig"))
        for fn in ("add", "subtract", "multiply", "true_divide"):
            us.append(Ufunc(cls, fn, "inplace"))
            us.append(Ufunc(cls, fn, "out-sig"))
        us.append(Ufunc(cls, "add", "out-arr"))
        if cls is pb.Signal:
            us.append(Ufunc(cls, "pair", "sig-sig"))
            us.append(Ufunc(cls, "pair", "sig-scalar"))
            us.append(Ufunc(cls, "pair", "scalar-sig"))
            us.append(Ufunc(cls, "pair", "out-tuple"))
    # integer-valued signal data with real scalars / arrays (result must be the promoted values)
    for fn in ("multiply", "add", "subtract", "true_divide"):
        us.append(Ufunc(pb.Signal, fn, "sig-scalar", int_data=True))
        us.append(Ufunc(pb.Signal, fn, "scalar-sig", int_data=True))
    us.append(Ufunc(pb.Signal, "multiply", "sig-sig", int_data=True))
    us.append(Ufunc(pb.Signal, "less", "sig-scalar", int_data=True))
    for fn in COMPARE:
        us.append(Ufunc(pb.Signal, fn, "sig-sig"))
        us.append(Ufunc(pb.Signal, fn, "scalar-sig"))
    for cls in (pb.BasebandSignal, pb.DualPolarizationSignal):
        for fn in ("negative", "conjugate", "positive", "square"):
            us.append(Ufunc(cls, fn, "sig"))
        for fn in ("add", "subtract", "multiply", "true_divide"):
            for arr in ("sig-sig", "arr-sig", "scalar-sig", "inplace", "out-sig"):
                if tier == "quick" and cls is pb.DualPolarizationSignal and arr in ("arr-sig", "out-sig") and fn != "multiply":
                    continue
                us.append(Ufunc(cls, fn, arr))
    for cls in (pb.Signal, pb.IntensitySignal, pb.BasebandSignal, pb.DualPolarizationSignal):
        us.append(Refused(cls))
    return us
