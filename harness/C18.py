"""C18 - fast FFT lengths are the nearest 7-smooth numbers for every N."""
import bisect

import numpy as np
import z3

import pulsarbat as pb
from pbsym.modes import Raised
from pbsym.runner import Unit

from .common import iterm

META = {
    "stubs": ["CrossHair 0.0.110 as a second engine on the same functions for N <= 150 (quick) / 1000 (thorough), specification by trial division", "functools.lru_cache bypassed (next_fast_len.__wrapped__ / prev_fast_len.__wrapped__ are the real bodies; "
              "a symbolic int is not hashable)"],
    "bounds": {"exhaustive range": "0 <= N < 2^17 quick, < 2^20 thorough (split into sub-ranges, each explored over all paths)",
               "windows": "symbolic N in [q-W, q+W] around pure prime powers q = 2^a, 3^a, 5^a, 7^a up to 2^62 (quick: every 4th, W=2^8; "
                          "thorough: all, W=2^12); thorough also around every 97th 7-smooth s in [2^20, 2^62]"},
    "assumptions": ["Python integers (unbounded) - no overflow"],
    "outside": ["N >= 2^17 (quick) / 2^20 (thorough) away from the sampled windows", "fast_len on a signal (checked in C01)"],
}


def smooth_table(limit):
    """all 7-smooth numbers <= limit by product enumeration (independent of the search loops under test)"""
    out = []
    p7 = 1
    while p7 <= limit:
        p5 = p7
        while p5 <= limit:
            p3 = p5
            while p3 <= limit:
                p2 = p3
                while p2 <= limit:
                    out.append(p2)
                    p2 *= 2
                p3 *= 3
            p5 *= 5
        p7 *= 7
    return sorted(out)


_TABLE = None


def table():
    global _TABLE
    if _TABLE is None:
        _TABLE = smooth_table(2**66)
    return _TABLE


class FastLen(Unit):
    functions = ("pulsarbat.utils:next_fast_len", "pulsarbat.utils:prev_fast_len")
    witnesses = 3
    max_paths = 200000
    fork_cap = 16

    def __init__(self, which, lo, hi):
        self.which, self.lo, self.hi = which, lo, hi
        self.name = f"{which}-{lo}-{hi}"
        self.bounds = {"function": which + "_fast_len", "N_from": lo, "N_below": hi}
        self.budget_s = 3000

    def patches(self):
        return []

    def build(self, S):
        return {"N": S.int("N", self.lo, self.hi - 1)}

    def call(self, a):
        f = pb.utils.next_fast_len if self.which == "next" else pb.utils.prev_fast_len
        N = a["N"]
        if isinstance(N, int):
            return f(N)
        return f.__wrapped__(N)

    def spec(self, S, a, out):
        if isinstance(out, Raised):
            return [("no-exception", z3.BoolVal(True))]
        N = iterm(a["N"])
        g = S.concretize(iterm(out))          # a path returns a constant, or N itself when N is pinned by the path
        T = table()
        i = bisect.bisect_left(T, g)
        is_smooth = (i < len(T) and T[i] == g) or g == 0
        checks = [("result-is-7-smooth", z3.BoolVal(not is_smooth))]
        if not is_smooth:
            return checks
        if self.which == "next":
            prev = T[i - 1] if i > 0 else -1
            if g == 0:
                prev = -1
            # smallest 7-smooth >= N   <=>   prev_smooth(g) < N <= g
            checks.append(("nearest", z3.Or(N > g, N <= prev)))
        else:
            nxt = T[i + 1] if g != 0 else 1
            # largest 7-smooth <= N    <=>   g <= N < next_smooth(g)
            checks.append(("nearest", z3.Or(N < g, N >= nxt)))
        return checks

    def compare(self, S, args, out, CS, cargs, cout):
        from pbsym import core as K
        if isinstance(out, Raised) or isinstance(cout, Raised):
            return [] if (isinstance(out, Raised) and isinstance(cout, Raised)) else [f"outcome kind differs: {out!r} vs {cout!r}"]
        v = K.evalz(iterm(out), CS.env, CS.ufs)
        return [] if int(v) == int(cout) else [f"symbolic path gives {v}, real function gives {cout}"]

    def witness_constraints(self, ctx):
        return []

    def hunt_candidates(self, ctx):
        T = table()
        i, j = bisect.bisect_left(T, self.lo), bisect.bisect_right(T, self.hi)
        out = []
        for s_ in T[i:j][:20]:
            for d in (0, 1, -1):
                if self.lo <= s_ + d < self.hi:
                    out.append({"N": s_ + d})
        return out

    def signature(self, label, values, detail):
        return f"{self.which}_fast_len:{label}"


class CrossHairFastLen(Unit):
    """second, independent symbolic executor (CrossHair) on the same two functions, against a specification that does not use the
    7-smooth table (trial division).  Only a counterexample (replayed) or 'Confirmed over all paths' counts."""
    functions = ("pulsarbat.utils:next_fast_len", "pulsarbat.utils:prev_fast_len")
    witnesses = 0
    budget_s = 3000
    keep_budget = True

    def __init__(self, maxn, timeout):
        self.maxn, self.timeout = maxn, timeout
        self.name = f"crosshair-n{maxn}"
        self.bounds = {"0<=N<=": maxn, "per_condition_timeout_s": timeout}

    def patches(self):
        return []

    def path(self, ctx, state):
        import os
        import re
        import subprocess
        import sys
        here = os.path.dirname(os.path.abspath(__file__))
        env = dict(os.environ, PBSYM_FASTLEN_MAXN=str(self.maxn), PYTHONPATH="/repo:" + os.environ.get("PYTHONPATH", ""))
        cmd = [sys.executable, "-m", "crosshair", "check", "--report_all", "--per_condition_timeout", str(self.timeout),
               os.path.join(here, "crosshair_fastlen.py")]
        r = subprocess.run(cmd, capture_output=True, text=True, env=env, timeout=self.timeout * 3 + 120)
        txt = r.stdout + r.stderr
        ctx.reached = True
        ctx.stats["queries"] += 1
        verdicts = [l.strip() for l in txt.splitlines() if "crosshair_fastlen.py" in l]
        state.setdefault("extra", {})["crosshair_verdicts"] = verdicts[:6]
        from .crosshair_fastlen import next_ok, prev_ok
        for line in verdicts:
            m = re.search(r"when calling (next_ok|prev_ok)\((?:n ?= ?)?(-?\d+)\)", line)
            if m:
                fn, n = m.group(1), int(m.group(2))
                ok = (next_ok if fn == "next_ok" else prev_ok)(n)
                if not ok:
                    which = "next" if fn == "next_ok" else "prev"
                    state["violations"].append({"unit": self.name, "label": "nearest", "values": {"N": n},
                                                "detail": f"{which}_fast_len({n}) is not the nearest 7-smooth number (CrossHair counterexample, replayed)",
                                                "signature": f"{which}_fast_len:nearest", "decisions": []})
                    ctx.checks.append(("crosshair", "sat", 0.0, None))
                    return None
                state["unconfirmed"].append({"unit": self.name, "label": "nearest", "values": {"N": n},
                                             "detail": "CrossHair counterexample did not reproduce", "tries": 1})
        confirmed = sum(1 for l in verdicts if "Confirmed over all paths" in l)
        ctx.checks.append(("crosshair", "unsat" if confirmed == 2 else "unknown", 0.0, None))
        if confirmed != 2:
            state["unknown"].append("crosshair: " + "; ".join(verdicts)[:300])
        return None

    def replay(self, label, values):
        from .crosshair_fastlen import next_ok, prev_ok
        n = int(values["N"])
        bad = [w for w, f in (("next", next_ok), ("prev", prev_ok)) if not f(n)]
        return ("reproduced", f"{bad} wrong at N={n}") if bad else ("not_reproduced", "correct")

    def signature(self, label, values, detail):
        return "fast_len:nearest"


def units(tier):
    us = [CrossHairFastLen(150, 240) if tier == "quick" else CrossHairFastLen(1000, 1500)]
    # fast_len(z) keeps exactly the first prev_fast_len(len(z)) samples, timestamps untouched (the unit lives in C01's harness:
    # symbolic length, prev_fast_len uninterpreted in the symbolic run, the real one in replays)
    from .C01 import FastLenCrop
    us += [FastLenCrop("Signal"), FastLenCrop("BasebandSignal", with_t0=False)] + ([] if tier == "quick" else [FastLenCrop("FullStokesSignal")])
    if tier == "quick":
        edges = [0, 64, 256, 512, 1024, 2048, 4096, 8192] + [2**14 * k for k in range(1, 9)]
    else:
        edges = [0, 1024, 4096] + [2**13 * k for k in range(1, 9)] + [2**16 * k for k in range(2, 17)]
    for which in ("next", "prev"):
        for lo, hi in zip(edges, edges[1:]):
            us.append(FastLen(which, lo, hi))
    # symbolic windows around pure prime powers (where bit-length / logarithm style shortcuts go wrong) ...
    W = 2**8 if tier == "quick" else 2**12
    special = set()
    for p in (2, 3, 5, 7):
        q = p
        while q <= 2**62:
            if q >= edges[-1]:
                special.add(q)
            q *= p
    special = sorted(special)
    if tier == "quick":
        special = [s for i, s in enumerate(special) if i % 6 == 0]
    for s in special:
        for which in ("next", "prev"):
            us.append(FastLen(which, s - W, s + W))
    # ... and around a stratified sample of all 7-smooth numbers up to 2^62
    if tier != "quick":
        T = [s for s in table() if 2**20 <= s <= 2**62]
        have = {u.name for u in us}
        for s in T[::97]:
            for which in ("next", "prev"):
                u = FastLen(which, s - 2**12, s + 2**12)
                if u.name not in have:
                    have.add(u.name)
                    us.append(u)
    return us
