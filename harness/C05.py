"""C05 - coherent dedispersion applies the cold-plasma chirp and crops to valid times."""
import itertools
import math
from fractions import Fraction

import astropy.units as u
import numpy as np
import z3

import pulsarbat as pb
import pulsarbat.transforms.dedispersion as D
from pbsym import core as K
from pbsym.core import Ctx, SComplex, SReal
from pbsym.modes import Raised, SigView, cterm, qterm, qterms, term_of_number
from pbsym.runner import Unit
from pbsym.stubs import NPProxy, standard_patches
from pbsym.symnd import SymND, plain

from .C06 import K0, law, outside
from .common import (RV, cis, cmul, cneq, compare_signals, dft_terms, iterm, magnitude_bound, meta_checks, neq, positive_ratfun,
                     rterm, zabs, zceil, zmax, zmin)

META = {
    "stubs": ["np.exp inside pulsarbat.transforms.dedispersion records its (purely imaginary) argument and returns fresh unit-modulus "
              "symbols h_k (h_k = exp(i*theta_k), |h_k| = 1): the chirp PHASES are checked against the analytic law, the filtering is "
              "checked for every unit-modulus chirp",
              "np.fft.fftfreq exact k'/(N*dt); scipy.fft.fft/ifft exact DFT; math.ceil/min/max symbolic; DM.sample_delay replaced by free "
              "reals d_top, d_bot in the filtering units (its formula is C06's job)",
              "astropy Quantity / DispersionMeasure real classes with dtype=object; Time -> SymTime"],
    "bounds": {"transfer function": "N in {1,2,3,4} quick, +{5,8} thorough; every bin; DM any real, dt > 0, center/ref frequency > 0 with "
               "units from {Hz, MHz, GHz}x{s, us}", "filtering": "N in {2,4} quick, +{3,8} thorough; nchan in {1,2}; extra dims; |delay| <= N+2"},
    "assumptions": ["phase compared in cycles within 1e-11 relative to K*|DM|*f*(1/f_ref + 1/f)^2 (astropy unit scale factors are floats; "
                    "2*pi is the float 6.283185307179586)", "band above 0 Hz"],
    "outside": ["complex64 accuracy of the chirp over many decades of DM", "time-domain DM/-DM round trip on cropped data", "Dask chirp"],
}
FU = {"Hz": (u.Hz, 1), "MHz": (u.MHz, 10**6), "GHz": (u.GHz, 10**9)}
TU = {"s": (u.s, Fraction(1)), "us": (u.us, Fraction(1, 10**6))}
TWO_PI_F = Fraction(repr(2 * math.pi))


class RecExp:
    """np stand-in for the dedispersion module: exp() records arguments and returns fresh unimodular symbols."""

    def __init__(self):
        self.base = NPProxy()
        self.calls = []           # list of (list of theta terms [radians], list of (re, im) consts)
        self.n = 0

    def __getattr__(self, n):
        return getattr(self.base, n)

    @property
    def fft(self):
        return self.base.fft

    def exp(self, x, *a, **k):
        ctx = Ctx.cur
        arr = np.asarray(plain(x.value if hasattr(x, "unit") else x), dtype=object)
        thetas, outs = [], np.empty(arr.shape, dtype=object)
        for ix in np.ndindex(*arr.shape):
            e = SComplex.of(arr[ix])
            re = z3.simplify(e.re)
            if not (z3.is_rational_value(re) and re.numerator_as_long() == 0):
                raise K.Unsupported("exp of a non-imaginary argument in dedispersion")
            cr, ci = z3.Real(f"h{self.n}r_" + "_".join(map(str, ix))), z3.Real(f"h{self.n}i_" + "_".join(map(str, ix)))
            ctx.axiom(cr * cr + ci * ci == 1)
            thetas.append(e.im)
            outs[ix] = SComplex(cr, ci)
        self.calls.append((thetas, outs))
        self.n += 1
        return SymND(outs, np.complex128)


def cycles_of(theta):
    """cycles of a recorded exponent theta (radians): the factor 2*pi is either the symbolic pi (when astropy applied the
    cycle->radian factor on its own) or folded into a float scale factor"""
    t0 = z3.simplify(z3.substitute(theta, (K.PI, z3.RealVal(0))))
    if z3.is_rational_value(t0) and t0.numerator_as_long() == 0 and not z3.eq(z3.simplify(theta), t0):
        return z3.substitute(theta, (K.PI, z3.RealVal(1))) / 2
    return theta / RV(TWO_PI_F)


def shape_term(dm, f_hz, ref_hz):
    """DM*f*(1/f_ref - 1/f)^2  (the law without its constant)"""
    d = 1 / ref_hz - 1 / f_hz
    return dm * f_hz * d * d


_POINTS = [{"dm": Fraction(1), "cf": Fraction(7), "rf": Fraction(3)}, {"dm": Fraction(-2), "cf": Fraction(11, 2), "rf": Fraction(13)},
           {"dm": Fraction(3), "cf": Fraction(101), "rf": Fraction(37, 3)}]


def law_checks(S, label, got, dm, f_hz, ref_hz, scale=None):
    """|got - K*DM*f*(1/f_ref-1/f)^2| <= 1e-11 * K*|DM|*f*(1/f_ref+1/f)^2 for all inputs.  Both sides are linear in DM:
    that is checked exactly first, then DM := 1 leaves two-variable queries (one per side), which nlsat decides quickly."""
    one = z3.RealVal(1)
    got1 = z3.substitute(got, (dm, one))
    unit_dm = one if scale is None else scale          # DM variable := 1 in its own unit = `scale` pc/cm^3
    want1 = phase_cycles(unit_dm, f_hz, ref_hz)
    tol1 = phase_tol(S, unit_dm, f_hz, ref_hz, positive=S.symbolic)
    if S.symbolic:
        # f > 0 on every path (assumed: band above 0 Hz), so |f| = f; divisions are cleared exactly before the solver sees the query
        return [(label + ":linear-in-DM", got != dm * got1), (label + ":hi", positive_ratfun(got1 - want1 - tol1)),
                (label + ":lo", positive_ratfun(want1 - got1 - tol1))]
    return [(label + ":linear-in-DM", got != dm * got1), (label + ":hi", got1 - want1 > tol1), (label + ":lo", want1 - got1 > tol1)]


def phase_cycles(dm, f_hz, ref_hz):
    """K*DM*f*(1/f_ref - 1/f)^2 in cycles (f in Hz; K in s MHz^2 = 1e12 s Hz^2)"""
    d = (0 if ref_hz is None else 1 / ref_hz) - 1 / f_hz          # (ref_hz None: infinite reference frequency)
    return RV(K0) * RV(10**12) * dm * f_hz * d * d


def phase_tol(S, dm, f_hz, ref_hz, positive=False):
    af = f_hz if positive else zabs(f_hz)
    d = 1 / ref_hz + 1 / af
    return RV(K0) * RV(10**12) * zabs(dm) * af * d * d * RV(Fraction(1, 10**11))


class TransferFunction(Unit):
    functions = ("pulsarbat.transforms.dedispersion:_transfer_function", "pulsarbat.transforms.dedispersion:DispersionMeasure.chirp_function")
    witnesses = 1
    variants = (None, "inf-ref")        # concrete replay of each witness with an infinite reference frequency (1/f_ref = 0)

    DMU = {"pc/cm3": (u.pc / u.cm**3, Fraction(1)), "pc/m3": (u.pc / u.m**3, Fraction(1, 10**6)), "kpc/cm3": (u.kpc / u.cm**3, Fraction(1000))}

    def __init__(self, N, ucf, uref, udt, dmu="pc/cm3"):
        self.N, self.ucf, self.uref, self.udt, self.dmu = N, ucf, uref, udt, dmu
        self.name = f"tf-N{N}-{ucf}-{uref}-{udt}{'' if dmu == 'pc/cm3' else '-dm-' + dmu.replace('/', '_')}"
        self.bounds = {"N": N, "units(center,ref,dt)": [ucf, uref, udt], "DM_unit": dmu}

    def patches(self):
        self.rec = RecExp()
        return standard_patches() + [(D, "np", self.rec)]

    def build(self, S):
        dm, cf, rf = S.real("dm"), S.real("cf"), S.real("rf")
        # sample spacing: concrete (keeps the bin frequencies linear in the symbolic centre frequency)
        dt = {"s": Fraction(1, 3), "us": Fraction(5, 2)}[self.udt] / (1 + self.N % 3)
        S.assume(dm > -10**4)
        S.assume(dm < 10**4)
        for x in (cf, rf):
            S.assume(x > Fraction(1, 100))
            S.assume(x < 10**5)
        cf_hz = rterm(cf) * FU[self.ucf][1]
        rf_hz = rterm(rf) * FU[self.uref][1]
        dt_s = RV(dt * TU[self.udt][1])
        # every bin frequency positive (band above 0 Hz)
        S.assume(cf_hz - 1 / (2 * dt_s) > 1)
        dmun = self.DMU[self.dmu][0]
        DM = pb.DM(np.array(dm, dtype=object), dmun, dtype=object) if S.symbolic else pb.DM(dm, dmun)
        if S.variant == "inf-ref":
            return {"DM": DM, "dm": dm, "cf": S.quantity(cf, FU[self.ucf][0]), "rf": np.inf * FU[self.uref][0],
                    "dt": float(dt) * TU[self.udt][0], "cf_hz": cf_hz, "rf_hz": None, "dt_s": dt_s}
        return {"DM": DM, "dm": dm, "cf": S.quantity(cf, FU[self.ucf][0]), "rf": S.quantity(rf, FU[self.uref][0]),
                "dt": float(dt) * TU[self.udt][0], "cf_hz": cf_hz, "rf_hz": rf_hz, "dt_s": dt_s}

    def call(self, a):
        return a["DM"].chirp_function(self.N, a["dt"], a["cf"], a["rf"])

    def spec(self, S, a, out):
        if isinstance(out, Raised):
            return [("no-exception", z3.BoolVal(True))]
        N = self.N
        dmv, dmscale = rterm(a["dm"]), RV(self.DMU[self.dmu][1])
        dm = dmv * dmscale                                          # in pc/cm^3
        checks = [("shape", z3.BoolVal(tuple(out.shape) != (N,))), ("dtype", z3.BoolVal(np.dtype(out.dtype) != np.complex64))]
        if tuple(out.shape) != (N,):
            return checks
        fk = []
        for k in range(N):
            kk = k if k < (N + 1) // 2 else k - N
            fk.append(a["cf_hz"] + RV(kk) / (N * a["dt_s"]))
        if S.symbolic:
            thetas, outs = self.rec.calls[-1]
            self._thetas = list(thetas)
            o = plain(out)
            bad = []
            for k in range(N):
                want = phase_cycles(dm, fk[k], a["rf_hz"])
                got = -cycles_of(thetas[k])              # exp(-i*theta): phase = theta/2pi cycles, sign per the property
                checks += law_checks(S, f"phase-law[{k}]", got, dmv, fk[k], a["rf_hz"], scale=dmscale)
                c = SComplex.of(o[k])
                bad.append(z3.Or(c.re != outs[k].re, c.im != outs[k].im))        # returned value is exp(-i theta_k) itself
            checks.append(("phase-law-value", z3.Or(bad)))
        else:
            if not np.all(np.isfinite(np.asarray(out))):
                return checks + [("chirp-is-finite", z3.BoolVal(True))]
            bad = []
            for k in range(N):
                ph = phase_cycles(dm, fk[k], a["rf_hz"])
                want = cis(S, -ph)
                # float64 carries the phase to ~1e-15 relative: allow that much of a cycle on top of complex64 rounding
                aph = abs(K.evalz(ph, S.env, S.ufs))
                bad.append(cneq(S, cterm(out[k]), want, Fraction(2, 10**4) + Fraction(63, 10**15) * aph))
            checks.append(("phase-law", z3.Or(bad)))
        return checks

    def compare(self, S, args, out, CS, cargs, cout):
        """the recorded exponents of the symbolic run, evaluated at the concrete inputs, must give the chirp the real code returns"""
        if isinstance(out, Raised) or isinstance(cout, Raised):
            return [] if (isinstance(out, Raised) and isinstance(cout, Raised)) else [f"outcomes differ: {out!r} vs {cout!r}"]
        import cmath
        thetas = self._thetas
        pr = []
        for k, th in enumerate(thetas):
            cyc = Fraction(K.evalz(cycles_of(th), CS.env, CS.ufs))
            frac = float(cyc - int(cyc))                       # reduce exactly before going to floats
            want = cmath.exp(2j * math.pi * frac)              # exp(i*theta), theta = 2 pi cycles ; the code returns exp(-1j*phase) = exp(i*theta_rec)
            got = complex(np.asarray(cout)[k])
            if abs(got - want) > 2e-4 + 1e-14 * abs(float(cyc)):
                pr.append(f"bin {k}: recorded exponent gives {want!r}, real chirp {got!r}")
        return pr

    def signature(self, label, values, detail):
        return f"chirp:{label.split('[')[0]}"


class StubDM(pb.DM):
    """Real DispersionMeasure (chirp_from_signal is the real method) whose sample_delay returns free reals."""
    _stub_delays = None

    def sample_delay(self, f, ref_freq, sample_rate):
        self._stub_calls.append((f, ref_freq, sample_rate))
        return self._stub_delays[len(self._stub_calls) - 1]


class Dedisperse(Unit):
    functions = ("pulsarbat.transforms.dedispersion:coherent_dedispersion", "pulsarbat.transforms.dedispersion:DispersionMeasure.chirp_from_signal",
                 "pulsarbat.transforms.dedispersion:DispersionMeasure.chirp_function", "pulsarbat.transforms.dedispersion:_transfer_function",
                 "pulsarbat.core:Signal._time_slice", "pulsarbat.core:RadioSignal.__getitem__")
    witnesses = 1

    def __init__(self, N, nchan, trail=(), dual=False, given_chirp=False, with_t0=True, align="center", ref=False):
        self.N, self.nchan, self.trail, self.dual, self.given_chirp, self.with_t0, self.align, self.ref = N, nchan, tuple(trail), dual, given_chirp, with_t0, align, ref
        self.name = f"dd-N{N}-c{nchan}-t{'x'.join(map(str, trail)) or '0'}{'-dual' if dual else ''}{'-chirp' if given_chirp else ''}" \
                    f"{'' if with_t0 else '-not0'}-{align}{'-ref' if ref else ''}"
        self.bounds = {"N": N, "nchan": nchan, "trailing": list(trail), "dual_pol": dual, "chirp_supplied": given_chirp,
                       "start_time": with_t0, "freq_align": align, "ref_freq_given": ref, "|delay|<=": N + 2}

    def patches(self):
        self.rec = RecExp()
        self.tf_calls = []
        real_tf = D.__dict__["_transfer_function"]
        real_tf = getattr(real_tf, "_pbsym_real", real_tf)

        def tf_wrapper(*args):
            self.tf_calls.append(args)
            return real_tf(*args)
        tf_wrapper._pbsym_real = real_tf
        return standard_patches() + [(D, "np", self.rec), (D, "_transfer_function", tf_wrapper)]

    def build(self, S):
        N = self.N
        sshape = (self.nchan,) + ((2,) if self.dual else ()) + self.trail
        z = S.carray("z", (N,) + sshape)
        cf, dm = S.real("cf"), S.real("dm")
        dt = [Fraction(1, 4000), Fraction(1, 2500000), Fraction(3, 1000)][(self.N + self.nchan) % 3]      # concrete sample spacing (s)
        S.assume(cf > 10)
        S.assume(cf < 10**5)
        S.assume(dm > -1000)
        S.assume(dm < 1000)
        S.assume(rterm(cf) * 10**6 - RV(self.nchan) / RV(dt) > 1)          # band above 0 Hz (cf in MHz, dt in s)
        t0v = None
        if self.with_t0:
            t0v = S.real("t0")
            S.assume(t0v > -10**6)
            S.assume(t0v < 10**6)
        kw = dict(sample_rate=float(1 / dt) * u.Hz, start_time=S.time(t0v), center_freq=S.quantity(cf, u.MHz), freq_align=self.align)
        sig = pb.DualPolarizationSignal(z, pol_type="linear", **kw) if self.dual else pb.BasebandSignal(z, **kw)
        dtop, dbot = S.real("dtop"), S.real("dbot")
        for d in (dtop, dbot):
            S.assume(d >= -(N + 2))
            S.assume(d <= N + 2)
        DM = StubDM(np.array(dm, dtype=object), dtype=object) if S.symbolic else StubDM(dm)
        DM._stub_delays = [dtop, dbot]
        DM._stub_calls = []
        rf = None
        if self.ref:
            rfv = S.real("rf")
            S.assume(rfv > 10)
            S.assume(rfv < 10**5)
            rf = S.quantity(rfv, u.MHz)
        chirp = None
        if self.given_chirp:
            # an arbitrary unit-modulus chirp of shape z.shape[:2]
            ph = S.rarray("ph", (N, self.nchan))
            if S.symbolic:
                arr = np.empty((N, self.nchan), dtype=object)
                self.hsym = {}
                for ix in np.ndindex(N, self.nchan):
                    cr, ci = S.real(f"gr_{ix[0]}_{ix[1]}"), S.real(f"gi_{ix[0]}_{ix[1]}")
                    S.ctx.axiom(cr.e * cr.e + ci.e * ci.e == 1)
                    arr[ix] = SComplex(cr.e, ci.e)
                chirp = SymND(arr, np.complex64)
            else:
                arr = np.empty((N, self.nchan), dtype=np.complex128)
                for ix in np.ndindex(N, self.nchan):
                    cr, ci = S.real(f"gr_{ix[0]}_{ix[1]}"), S.real(f"gi_{ix[0]}_{ix[1]}")
                    arr[ix] = complex(cr, ci)
                chirp = arr
        return {"sig": sig, "z": z, "DM": DM, "dm": dm, "dt": dt, "dtop": dtop, "dbot": dbot, "rf": rf, "chirp": chirp, "cf": cf}

    def call(self, a):
        a["DM"]._stub_calls = []
        return pb.coherent_dedispersion(a["sig"], a["DM"], ref_freq=a["rf"], chirp=a["chirp"])

    def spec(self, S, a, out):
        N = self.N
        if isinstance(out, Raised):
            return [("no-exception", z3.BoolVal(True))]
        vin, vo = SigView(a["sig"]), SigView(out)
        dt = 1 / vin.sr                      # sample spacing as the signal states it
        dtop, dbot = rterm(a["dtop"]), rterm(a["dbot"])
        zero = z3.RealVal(0)
        start = zceil(zmax([zero, -dtop, -dbot]))
        back = zceil(zmax([zero, dtop, dbot]))
        stop = N - back
        L = z3.If(stop > start, stop - start, 0)
        checks = [("length", vo.length != L)]
        checks += meta_checks(S, vin, vo, what=("cls", "sr", "cf", "bw", "align", "pol_type"))
        if vin.t0 is None:
            checks.append(("start_time", z3.BoolVal(vo.t0 is not None)))
        elif vo.t0 is None:
            checks.append(("start_time", z3.BoolVal(True)))
        else:
            # (the sample rate is a concrete float here, so start/sample_rate is computed in floating point: allow its rounding)
            ttol = RV(Fraction(1, 10**6)) if not S.symbolic else dt * (z3.ToReal(start) + 1) * RV(Fraction(1, 10**12))
            checks.append(("start_time", z3.And(L > 0, outside(vo.t0, vin.t0 + z3.ToReal(start) * dt, ttol))))
        # delays were requested at the band edges with the reference frequency and the sample rate
        calls = a["DM"]._stub_calls
        ok = len(calls) == 2
        if ok:
            want_ref = a["rf"] if a["rf"] is not None else a["sig"].center_freq
            bad = [neq(S, qterm(calls[0][0], u.Hz), qterm(a["sig"].max_freq, u.Hz), 1e-2),
                   neq(S, qterm(calls[1][0], u.Hz), qterm(a["sig"].min_freq, u.Hz), 1e-2)]
            for c in calls:
                bad.append(neq(S, qterm(c[1], u.Hz), qterm(want_ref, u.Hz), 1e-2))
                bad.append(neq(S, qterm(c[2], u.Hz), vin.sr, 1e-9))
            checks.append(("delay-arguments", z3.Or(bad)))
        else:
            checks.append(("delay-arguments", z3.BoolVal(True)))
        nout = vo.nlen
        if nout == 0:
            return checks
        start_c = S.concretize(start)
        z = plain(a["z"]) if S.symbolic else a["z"]
        mag = magnitude_bound(S, a["z"])
        tol = 3e-5 * mag * N
        dm = rterm(a["dm"])
        # chirp per (bin, channel)
        H = {}
        if self.given_chirp:
            ch = plain(a["chirp"]) if S.symbolic else a["chirp"]
            for k in range(N):
                for c in range(self.nchan):
                    H[k, c] = cterm(ch[k, c])
        elif S.symbolic:
            calls_e = self.rec.calls
            ok_calls = len(calls_e) == self.nchan
            checks.append(("one-chirp-per-channel", z3.BoolVal(not ok_calls)))
            if not ok_calls:
                return checks
            labels = vin.chan_freqs()
            ref_hz = qterm(a["rf"], u.Hz) if a["rf"] is not None else vin.cf
            # assume/guarantee: the transfer function itself is decided in the tf-* units; here every channel's chirp must be
            # that function called with (K*DM, N, dt, label of the channel, reference frequency)
            badp = [z3.BoolVal(len(self.tf_calls) != self.nchan)]
            for c in range(min(self.nchan, len(self.tf_calls))):
                coeff, n_, dt_, cf_, ref_ = self.tf_calls[c]
                cv = qterm(coeff, u.s * u.MHz ** 2)
                badp.append(outside(cv, RV(K0) * dm, RV(K0) * zabs(dm) * RV(Fraction(1, 10**12))))
                badp.append(z3.BoolVal(int(n_) != N))
                rel = RV(Fraction(1, 10**12))
                badp.append(outside(qterm(dt_, u.s), dt, dt * rel))
                badp.append(outside(qterm(cf_, u.Hz), labels[c], zabs(labels[c]) * rel))
                badp.append(outside(qterm(ref_, u.Hz), ref_hz, zabs(ref_hz) * rel))
                thetas, outs = calls_e[c]
                for k in range(N):
                    H[k, c] = (outs[k].re, outs[k].im)
            checks.append(("transfer-function-arguments", z3.Or(badp)))
        else:
            labels = vin.chan_freqs()
            ref_hz = qterm(a["rf"], u.Hz) if a["rf"] is not None else vin.cf
            maxph = Fraction(0)
            for c in range(self.nchan):
                for k in range(N):
                    kk = k if k < (N + 1) // 2 else k - N
                    fk = labels[c] + RV(kk) / (N * dt)
                    ph = phase_cycles(dm, fk, ref_hz)
                    maxph = max(maxph, abs(K.evalz(ph, S.env, S.ufs)))
                    H[k, c] = cis(S, -ph)
            # float64 carries the chirp phase to ~1e-15 relative (plus complex64 rounding of the chirp itself)
            tol = float(tol) + mag * N * (2e-6 + 6.3e-14 * float(maxph))
        sshape = vin.sample_shape
        for ix in np.ndindex(*sshape):
            col = [cterm(z[(m,) + ix]) for m in range(N)]
            X = dft_terms(col)
            Y = dft_terms([cmul(X[k], H[k, ix[0]]) for k in range(N)], inverse=True)
            bad = [cneq(S, vo.elem(k, ix), Y[start_c + k] if start_c + k < N else (zero, zero), tol) for k in range(nout)]
            checks.append((f"elem{list(ix)}", z3.Or(bad)))
        return checks

    def compare(self, S, args, out, CS, cargs, cout):
        if isinstance(out, Raised) or isinstance(cout, Raised):
            return compare_signals(S, out, CS, cout)
        vs, vc = SigView(out), SigView(cout)
        pr = []
        ls, lc = K.evalz(vs.length, CS.env, CS.ufs), K.evalz(vc.length, CS.env, CS.ufs)
        if ls != lc:
            pr.append(f"length {ls} vs {lc}")
        if (vs.t0 is None) != (vc.t0 is None):
            pr.append("start_time presence")
        elif vs.t0 is not None and abs(K.evalz(vs.t0, CS.env) - K.evalz(vc.t0, CS.env)) > Fraction(1, 10**6) and lc > 0:
            pr.append("start_time value")
        return pr          # (data contain the fresh chirp symbols: compared through the oracle instead)

    def signature(self, label, values, detail):
        if label == "length":
            return "coherent_dedispersion:crop-length"
        return f"coherent_dedispersion:{label.split('[')[0]}"


class Inverse(Unit):
    """H_DM * H_-DM = 1: the recorded exponent of the chirp for -DM is the negative of the one for DM, bin by bin."""
    functions = ("pulsarbat.transforms.dedispersion:DispersionMeasure.chirp_function", "pulsarbat.transforms.dedispersion:_transfer_function")
    witnesses = 0

    def __init__(self, N):
        self.N = N
        self.name = f"inverse-N{N}"
        self.bounds = {"N": N}

    def patches(self):
        self.rec = RecExp()
        return standard_patches() + [(D, "np", self.rec)]

    def build(self, S):
        dm, cf, rf, dt = S.real("dm"), S.real("cf"), S.real("rf"), S.real("dt")
        for x in (cf, rf, dt):
            S.assume(x > Fraction(1, 100))
            S.assume(x < 10**5)
        S.assume(rterm(cf) * 10**6 - 1 / (2 * rterm(dt)) > 1)
        if S.symbolic:
            mk = lambda v: pb.DM(np.array(v, dtype=object), dtype=object)
        else:
            mk = pb.DM
        return {"p": mk(dm), "m": mk(-dm), "cf": S.quantity(cf, u.MHz), "rf": S.quantity(rf, u.MHz), "dt": S.quantity(dt, u.s)}

    def call(self, a):
        return (a["p"].chirp_function(self.N, a["dt"], a["cf"], a["rf"]), a["m"].chirp_function(self.N, a["dt"], a["cf"], a["rf"]))

    def spec(self, S, a, out):
        if isinstance(out, Raised):
            return [("no-exception", z3.BoolVal(True))]
        if S.symbolic:
            (t1, _), (t2, _) = self.rec.calls[-2], self.rec.calls[-1]
            return [("exponents-cancel", z3.Or([x + y != 0 for x, y in zip(t1, t2)]))]
        p, m = out
        return [("product-is-one", z3.BoolVal(bool(np.any(np.abs(np.asarray(p) * np.asarray(m) - 1) > 1e-5))))]

    def signature(self, label, values, detail):
        return f"chirp:{label}"


class Envelope(Unit):
    """for every f inside the band (above 0 Hz) the delay lies between the two band-edge delays"""
    functions = ("pulsarbat.transforms.dedispersion:DispersionMeasure.sample_delay",)
    witnesses = 0

    def __init__(self):
        self.name = "envelope"
        self.bounds = {"f": "any frequency in [min_freq, max_freq], min_freq > 0"}

    def build(self, S):
        dm, lo, hi, f, rf, sr = (S.real(n) for n in ("dm", "lo", "hi", "f", "rf", "sr"))
        for x in (lo, hi, f, rf, sr):
            S.assume(x > Fraction(1, 100))
            S.assume(x < 10**5)
        S.assume(dm > -1000)
        S.assume(dm < 1000)
        S.assume(lo <= f)
        S.assume(f <= hi)
        DM = pb.DM(np.array(dm, dtype=object), dtype=object) if S.symbolic else pb.DM(dm)
        q = lambda v: S.quantity(v, u.MHz)
        return {"DM": DM, "lo": q(lo), "hi": q(hi), "f": q(f), "rf": q(rf), "sr": S.quantity(sr, u.kHz)}

    def call(self, a):
        DM = a["DM"]
        return [DM.sample_delay(a[k], a["rf"], a["sr"]) for k in ("lo", "f", "hi")]

    def spec(self, S, a, out):
        if isinstance(out, Raised):
            return [("no-exception", z3.BoolVal(True))]
        dl, df, dh = (term_of_number(x) for x in out)
        e = z3.RealVal(0) if S.symbolic else RV(Fraction(1, 10**6)) * (zabs(dl) + zabs(dh) + 1)
        return [("between-band-edge-delays", z3.Or(df > zmax([dl, dh]) + e, df < zmin([dl, dh]) - e))]

    def signature(self, label, values, detail):
        return f"delay:{label}"


def units(tier):
    us = []
    ucyc = itertools.cycle([("MHz", "MHz", "us"), ("GHz", "MHz", "s"), ("Hz", "GHz", "s"), ("MHz", "Hz", "s"), ("GHz", "Hz", "us")])
    for N in ((1, 2, 3, 4) if tier == "quick" else (1, 2, 3, 4, 5, 8)):
        for _ in range(1 if tier == "quick" else 2):
            us.append(TransferFunction(N, *next(ucyc)))
    us += [TransferFunction(2, "MHz", "GHz", "us", dmu="pc/m3"), TransferFunction(3, "GHz", "MHz", "s", dmu="kpc/cm3")]
    acyc = itertools.cycle(["center", "bottom", "top"])
    for N in ((2, 4) if tier == "quick" else (2, 3, 4, 8)):
        us.append(Dedisperse(N, 1, align=next(acyc)))
        us.append(Dedisperse(N, 2, align=next(acyc), ref=True))
        us.append(Dedisperse(N, 2, given_chirp=True, with_t0=False, align=next(acyc)))
        if N <= 4:
            us.append(Dedisperse(N, 1, dual=True, align=next(acyc), ref=(N == 4)))
            us.append(Dedisperse(N, 2, trail=(2,), given_chirp=(N == 2), align=next(acyc)))
        if tier != "quick" and N <= 4:
            us.append(Dedisperse(N, 2, dual=True, trail=(2,), align=next(acyc)))
    us += [Inverse(2), Inverse(3), Envelope()]
    return us
