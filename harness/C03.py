"""C03 - time_shift is a band-limited delay with exact zero-fill and no wrap-around."""
from fractions import Fraction

import astropy.units as u
import numpy as np
import z3

import pulsarbat as pb
from pbsym import core as K
from pbsym.core import SComplex, cis_cycles
from pbsym.modes import Raised, SigView, cterm
from pbsym.runner import Unit
from pbsym.stubs import standard_patches
from pbsym.symnd import SymND, plain, sym_dft

from .common import (cis, cmul, dft_terms, RV, bcast_index, cneq, compare_signals, iterm, magnitude_bound, meta_checks, neq, rterm,
                     select, zceil, zfloor, zmax, zmin)

META = {
    "stubs": [
        "np proxy in pulsarbat.transforms.transforms / pulsarbat.core (array/asarray keep E-arrays, allclose, "
        "iscomplexobj, nditer for object arrays with multi_index, fft.fftfreq exact k/N, pi symbolic)",
        "scipy.fft.fft/ifft replaced by the exact DFT with exact roots of unity when given an E-array",
        "int() in transforms concretises a symbolic integer by a bounded, exhaustively enumerated fork",
        "astropy Time replaced by exact-real SymTime; Quantity is the real astropy class with dtype=object",
    ],
    "bounds": {"N": "quick {1,2,3,4}; thorough adds {6,8}", "sample shapes": "(), (2,), (2,2), (1,2), (2,1); thorough adds (3,), (2,3)",
               "shift shapes": "every shape that broadcasts against the sample shape (lower rank, length-1 axes)",
               "integer shifts": "|s| <= N+2 (1 shift element), N+1 (2 elements), 1 (4+ elements; thorough: N for N<=2)", "real shifts": "|s| < N+2"},
    "assumptions": ["exact real arithmetic for samples, shifts and the DFT (float32/complex64 rounding of the phase ramp "
                    "and FFT round-off are outside the claim)", "sample_rate > 0"],
    "outside": ["N not in {1,2,3,4,6,8}", "accuracy of the complex64 phase ramp", "Dask-backed data"],
}


def shift_shapes(sshape):
    """every shift-array shape that the code accepts for this sample shape (incl. scalar ())"""
    out = [()]
    for r in range(1, len(sshape) + 1):
        lead = sshape[:r]
        opts = [[d] if d == 1 else [d, 1] for d in lead]
        import itertools
        for combo in itertools.product(*opts):
            out.append(tuple(combo))
    return out


class IntShift(Unit):
    """integer shifts: samples move exactly; out-of-range sources are exactly zero for every element."""
    functions = ("pulsarbat.transforms.transforms:time_shift", "pulsarbat.core:Signal._time_slice",
                 "pulsarbat.core:Signal.__getitem__", "pulsarbat.core:Signal.like", "pulsarbat.core:Signal.__init__")
    witnesses = 1

    def patches(self):
        # int() concretises: each shift element forks over its (bounded) values, so every query is closed-form
        return standard_patches(concretize_int=True)

    def __init__(self, N, sshape, shift_shape, cplx=True, crop=False, t0=True, as_quantity=False, smax=None):
        self.N, self.sshape, self.shift_shape = N, tuple(sshape), tuple(shift_shape)
        k = int(np.prod(shift_shape)) if shift_shape else 1
        self.smax = smax if smax is not None else (N + 2 if k == 1 else (N + 1 if k == 2 else 1))
        self.cplx, self.crop, self.t0, self.as_quantity = cplx, crop, t0, as_quantity
        self.name = f"int-N{N}-s{'x'.join(map(str, sshape)) or '0'}-sh{'x'.join(map(str, shift_shape)) or 'scalar'}" \
                    f"-{'c' if cplx else 'r'}{'-crop' if crop else ''}{'' if t0 else '-not0'}" \
                    f"{('-q' if as_quantity is True else '-q' + as_quantity.replace('*', '')) if as_quantity else ''}"
        self.bounds = {"N": N, "sample_shape": list(sshape), "shift_shape": list(shift_shape), "complex": cplx,
                       "crop": crop, "start_time": t0, "shift_as_time_quantity": as_quantity, "|s|<=": self.smax}

    def build(self, S):
        N = self.N
        shape = (N,) + self.sshape
        z = S.carray("z", shape) if self.cplx else S.rarray("z", shape)
        if self.as_quantity:
            dt = Fraction(1, 250000)           # concrete 250 kHz: keeps (shift*sample_rate) linear
            # unit pair of (shift, sample_rate): "ms*kHz" has scale 1, the others need the product reduced to a pure number
            self.qu, self.ru = {True: ("ms", "kHz"), "us*kHz": ("us", "kHz"), "s*MHz": ("s", "MHz"), "us*Hz": ("us", "Hz"),
                                "s*GHz": ("s", "GHz")}[self.as_quantity]
            sr = {"kHz": 250 * u.kHz, "MHz": 0.25 * u.MHz, "Hz": 250000 * u.Hz, "GHz": 2**30 * u.Hz}[self.ru]
            if self.ru == "GHz":
                # a whole-sample shift is ~1e-9 in the Quantity's own unit: below numpy.allclose's 1e-8, though several samples.
                # (a rate of 2^30 Hz given in Hz, so that s * dt and (s * dt) * rate are exact in floating point in the concrete
                #  replays: with the rate in GHz astropy's scale factor 1e9 turns 3 samples into 3.0000000000000004, which the real
                #  code then rightly treats as a fractional shift - float rounding of the conversion, outside the claim)
                dt = Fraction(1, 2**30)
                self._dt_lifted = True
        else:
            dt = S.real("dt")
            S.assume(dt > Fraction(1, 10**9))
            S.assume(dt < 1000)
            sr = S.quantity(1 / dt, u.Hz)
        t0 = None
        if self.t0:
            t0v = S.real("t0")
            S.assume(t0v > -10**6)
            S.assume(t0v < 10**6)
            t0 = S.time(t0v)
        sig = pb.Signal(z, sample_rate=sr, start_time=t0)
        if self.shift_shape == ():
            s = S.int("s", -self.smax, self.smax)
            sh = s
            full = np.full(self.sshape, None, dtype=object)
            for ix in np.ndindex(*self.sshape):
                full[ix] = s
        else:
            sh = S.iarray("s", self.shift_shape, -self.smax, self.smax)
            pad = np.asarray(sh, dtype=object).reshape(self.shift_shape + (1,) * (len(self.sshape) - len(self.shift_shape)))
            full = np.broadcast_to(pad, self.sshape)
        shift = sh
        if self.as_quantity:
            # shift given as a time Quantity: s samples = s * 4 us
            qun = {"ms": u.ms, "us": u.us, "s": u.s}[self.qu]
            f = Fraction(dt) / Fraction(qun.to(u.s)).limit_denominator(10**9)
            if S.symbolic:
                shift = S.quantity((sh * f) if self.shift_shape == () else SymND(sh) * f, qun)
            else:
                shift = (np.asarray(sh, dtype=float) * float(f)) * qun
        if getattr(self, "_dt_lifted", False) and S.symbolic:
            # the code's own dt is the float 1/sample_rate, which the engine lifts by its shortest decimal (not a dyadic rational)
            from pbsym.core import frac_of_float
            dt = frac_of_float(2.0**-30)
        return {"sig": sig, "z": z, "shift": shift, "full": full, "dt": dt}

    def call(self, a):
        return pb.time_shift(a["sig"], a["shift"], crop=self.crop)

    def spec(self, S, a, out):
        N = self.N
        if isinstance(out, Raised):
            return [("no-exception", z3.BoolVal(True))]
        vin, vo = SigView(a["sig"]), SigView(out)
        tolq = self.as_quantity and not S.symbolic
        checks = []
        z = plain(a["z"]) if S.symbolic else a["z"]
        mag = magnitude_bound(S, a["z"])
        tol = 2e-5 * mag
        svals = {ix: iterm(a["full"][ix]) for ix in np.ndindex(*self.sshape)}
        dt = rterm(a["dt"])
        if self.crop:
            allz = z3.And([s == 0 for s in svals.values()])
            start = zmax([z3.IntVal(0)] + list(svals.values()))
            stop = N + zmin([z3.IntVal(0)] + list(svals.values()))
            # all-zero shifts return the input unchanged (no crop needed)
            L = z3.If(stop > start, stop - start, 0)
            checks.append(("length", vo.length != L))
            checks += meta_checks(S, vin, vo, what=("cls", "sr"))
            if vin.t0 is None:
                checks.append(("start_time", z3.BoolVal(vo.t0 is not None)))
            elif vo.t0 is None:
                checks.append(("start_time", z3.BoolVal(True)))
            else:
                # an empty result has no first sample: its start time is left unconstrained
                checks.append(("start_time", z3.And(L > 0, neq(S, vo.t0, vin.t0 + z3.ToReal(start) * dt, 1e-7))))
            nout = vo.nlen
        else:
            start = z3.IntVal(0)
            checks.append(("length", vo.length != N))
            checks += meta_checks(S, vin, vo, what=("cls", "sr", "t0"), tol_t=1e-9)
            nout = vo.nlen
        checks.append(("dtype", z3.BoolVal(vo.dtype != vin.dtype)))
        for ix in np.ndindex(*self.sshape):
            s = svals[ix]
            col = [cterm(z[(m,) + ix]) for m in range(N)]
            bad = []
            for k in range(nout):
                n = start + k
                src_re = select([c[0] for c in col], n - s, z3.RealVal(0))
                src_im = select([c[1] for c in col], n - s, z3.RealVal(0))
                o = vo.elem(k, ix)
                inside = z3.And(n - s >= 0, n - s < N)
                # outside the input: exactly zero (no tolerance); inside: the moved sample
                bad.append(z3.If(inside, cneq(S, o, (src_re, src_im), tol), z3.Or(o[0] != 0, o[1] != 0)))
            checks.append((f"elem{list(ix)}", z3.Or(bad) if bad else z3.BoolVal(False)))
        return checks

    def compare(self, S, args, out, CS, cargs, cout):
        return compare_signals(S, out, CS, cout, rtol=2e-5)

    def signature(self, label, values, detail):
        if label.startswith("elem") and self.shift_shape != self.sshape:
            ix = tuple(int(t) for t in label[5:-1].replace(" ", "").split(",") if t != "")
            padded = self.shift_shape + (1,) * (len(self.sshape) - len(self.shift_shape))
            on_bcast = any(i != 0 and p == 1 and d != 1 for i, p, d in zip(ix, padded, self.sshape))
            if on_bcast:
                return "time_shift:zero-fill-skipped-on-broadcast-axis"
        return f"time_shift:int:{label.split('[')[0]}"


class FracShift(IntShift):
    """real-valued shifts: every spectral bin is multiplied by exp(-2 pi i k' s/N); rows whose source lies
    outside the input are exactly zero for every element."""

    def __init__(self, N, sshape, shift_shape, cplx=True, crop=False, t0=True):
        IntShift.__init__(self, N, sshape, shift_shape, cplx=cplx, crop=crop, t0=t0)
        self.name = "frac" + self.name[3:]
        self.bounds["|s|<"] = self.bounds.pop("|s|<=") + 1
        self.bounds["shift values"] = "real (integer or fractional)"

    def build(self, S):
        N = self.N
        shape = (N,) + self.sshape
        z = S.carray("z", shape) if self.cplx else S.rarray("z", shape)
        dt = S.real("dt")
        S.assume(dt > Fraction(1, 10**9))
        S.assume(dt < 1000)
        sr = S.quantity(1 / dt, u.Hz)
        t0 = None
        if self.t0:
            t0v = S.real("t0")
            S.assume(t0v > -10**6)
            S.assume(t0v < 10**6)
            t0 = S.time(t0v)
        sig = pb.Signal(z, sample_rate=sr, start_time=t0)
        lim = self.smax + 1

        def mk(name):
            v = S.real(name)
            S.assume(v > -lim)
            S.assume(v < lim)
            return v
        if self.shift_shape == ():
            sh = mk("s")
            full = np.full(self.sshape, None, dtype=object)
            for ix in np.ndindex(*self.sshape):
                full[ix] = sh
        else:
            sh = np.empty(self.shift_shape, dtype=object)
            for ix in np.ndindex(*self.shift_shape):
                sh[ix] = mk("s_" + "_".join(map(str, ix)))
            pad = sh.reshape(self.shift_shape + (1,) * (len(self.sshape) - len(self.shift_shape)))
            full = np.broadcast_to(pad, self.sshape)
            if S.symbolic:
                sh = SymND(sh, np.float64)
            else:
                sh = np.asarray(sh, dtype=float)
        # time_shift treats shifts that are all within numpy.allclose tolerance (1e-8) of zero as "no shift";
        # that tolerance band is outside the claim: either all shifts are exactly 0 or some |s| > 1e-6
        ts = [rterm(full[ix]) for ix in np.ndindex(*self.sshape)]
        eps = RV(Fraction(1, 10**6))
        S.assume(z3.Or(z3.And([t == 0 for t in ts]), z3.Or([z3.Or(t > eps, -t > eps) for t in ts])))
        return {"sig": sig, "z": z, "shift": sh, "full": full, "dt": dt}

    def spec(self, S, a, out):
        N = self.N
        if isinstance(out, Raised):
            return [("no-exception", z3.BoolVal(True))]
        vin, vo = SigView(a["sig"]), SigView(out)
        checks = []
        z = plain(a["z"]) if S.symbolic else a["z"]
        mag = magnitude_bound(S, a["z"])
        tol = 3e-5 * mag * max(1, N)
        svals = {ix: rterm(a["full"][ix]) for ix in np.ndindex(*self.sshape)}
        dt = rterm(a["dt"])
        cs = [z3.If(s > 0, zceil(s), z3.IntVal(0)) for s in svals.values()]       # zeroed rows at the front
        fl = [z3.If(s < 0, zfloor(s), z3.IntVal(0)) for s in svals.values()]      # (negative) zeroed rows at the back
        if self.crop:
            start = zmax([z3.IntVal(0)] + cs)
            stop = N + zmin([z3.IntVal(0)] + fl)
            L = z3.If(stop > start, stop - start, 0)
            checks.append(("length", vo.length != L))
            checks += meta_checks(S, vin, vo, what=("cls", "sr"))
            if vin.t0 is None:
                checks.append(("start_time", z3.BoolVal(vo.t0 is not None)))
            elif vo.t0 is None:
                checks.append(("start_time", z3.BoolVal(True)))
            else:
                checks.append(("start_time", z3.And(L > 0, neq(S, vo.t0, vin.t0 + z3.ToReal(start) * dt, 1e-7))))
        else:
            start = z3.IntVal(0)
            checks.append(("length", vo.length != N))
            checks += meta_checks(S, vin, vo, what=("cls", "sr", "t0"), tol_t=1e-9)
        nout = vo.nlen
        checks.append(("dtype", z3.BoolVal(vo.dtype != vin.dtype)))
        allzero = S.decide(z3.And([s == 0 for s in svals.values()]))
        for ix in np.ndindex(*self.sshape):
            s = svals[ix]
            col = [cterm(z[(m,) + ix]) for m in range(N)]
            if allzero:
                # zero shift: the delay is the identity
                bad = [cneq(S, vo.elem(k, ix), col[k], tol) for k in range(min(nout, N))]
                checks.append((f"elem{list(ix)}", z3.Or(bad) if bad else z3.BoolVal(False)))
                continue
            X = dft_terms(col)
            variants = []
            nyq = [None] if N % 2 or N == 0 else [N // 2, -(N // 2)]
            for ny in nyq:
                Yk = []
                for k in range(N):
                    kk = k if k < (N + 1) // 2 else k - N
                    if ny is not None and k == N // 2:
                        kk = ny
                    Yk.append(cmul(X[k], cis(S, -s * RV(kk) / N)))
                variants.append(dft_terms(Yk, inverse=True))
            # the path has already fixed ceil/floor of every shift: read the (unique) values off the path condition
            zero_front = S.concretize(z3.If(s > 0, zceil(s), z3.IntVal(0)))
            zero_back = S.concretize(z3.If(s < 0, zfloor(s), z3.IntVal(0)))
            start_c = S.concretize(start)
            bad = []
            for k in range(nout):
                n = start_c + k
                o = vo.elem(k, ix)
                is_zero = z3.BoolVal(n < zero_front or n >= N + zero_back)
                alts = []
                for Y in variants:
                    yr = select([y[0] for y in Y], n, z3.RealVal(0))
                    yi = select([y[1] for y in Y], n, z3.RealVal(0))
                    if not self.cplx:
                        yi = z3.RealVal(0)
                    alts.append(cneq(S, o, (yr, yi), tol))
                bad.append(z3.If(is_zero, z3.Or(o[0] != 0, o[1] != 0), z3.And(alts)))
            checks.append((f"elem{list(ix)}", z3.Or(bad) if bad else z3.BoolVal(False)))
        return checks

    def signature(self, label, values, detail):
        sig = IntShift.signature(self, label, values, detail)
        return sig.replace("time_shift:int:", "time_shift:frac:")


def units(tier):
    us = []
    Ns = (1, 2, 3, 4) if tier == "quick" else (1, 2, 3, 4, 6, 8)
    sshapes = [(), (2,), (2, 2), (1, 2), (2, 1)]
    if tier != "quick":
        sshapes += [(3,), (2, 3)]
    for N in Ns:
        for ss in sshapes:
            for sh in shift_shapes(ss):
                if tier == "quick" and N in (1, 3) and len(ss) == 2 and sh not in ((), ss):
                    continue
                if tier == "quick" and N in (3, 4) and len(ss) == 2 and len(sh) == 2 and sh[0] * sh[1] == 4:
                    continue          # (81+ paths with sqrt(3) arithmetic: thorough tier)
                if N >= 6 and len(ss) == 2 and sh not in ((), ss, ss[:1]):
                    continue
                if N >= 3 and len(sh) == 2 and sh[0] * sh[1] == 6:
                    continue          # (729 paths of 6N element queries each: more than an hour per unit from N = 3)
                us.append(IntShift(N, ss, sh, cplx=True, crop=False))
    # crop / real / no start time / quantity variants on a smaller grid
    for N in ((2, 4) if tier == "quick" else (1, 2, 3, 4, 6)):
        for ss, sh in (((), ()), ((2,), (2,)), ((2,), ()), ((2, 2), (2, 1))):
            us.append(IntShift(N, ss, sh, cplx=True, crop=True))
            us.append(IntShift(N, ss, sh, cplx=False, crop=(N % 2 == 0), t0=False))
        us.append(IntShift(N, (2,), (2,), cplx=True, crop=True, as_quantity=True))
        us.append(IntShift(N, (), (), cplx=False, crop=False, as_quantity=True))
        if N in (2, 3):
            us.append(IntShift(N, (2,), (), cplx=True, crop=(N == 2), as_quantity="us*kHz" if N == 2 else "s*MHz"))
        if N == 4:
            us.append(IntShift(N, (), (), cplx=True, crop=True, as_quantity="us*Hz"))
            us.append(IntShift(N, (), (), cplx=True, crop=False, as_quantity="s*GHz"))
            us.append(IntShift(N, (2,), (2,), cplx=False, crop=True, as_quantity="s*GHz"))
    if tier == "quick":
        # real-valued data at an odd length (a half-spectrum round trip must not lose the last sample)
        us.append(IntShift(3, (), (), cplx=False, crop=False))
        us.append(IntShift(3, (2,), (2,), cplx=False, crop=True, t0=False))
        us.append(IntShift(1, (2,), (), cplx=False, crop=False))
    # (ii) real-valued shifts
    for N in ((2, 4) if tier == "quick" else (1, 2, 4)):
        for ss, sh in (((), ()), ((2,), (2,)), ((2,), ()), ((2,), (1,)), ((2, 2), (2, 1)), ((2, 2), (2,))):
            if N >= 4 and (len(ss) == 2 or len(sh) == 1 and sh[0] == 2) and tier == "quick":
                continue          # (217 paths each: thorough tier)
            us.append(FracShift(N, ss, sh, cplx=True, crop=False))
            us.append(FracShift(N, ss, sh, cplx=(N != 2), crop=True, t0=(N != 4)))
    if tier != "quick":
        for u_ in us:
            u_.budget_s = 3000        # (two-element shifts at N = 8: 361 paths of 16 DFT-sized queries, 10-20 min under load)
    return us
