"""C04 - freq_shift moves the spectrum by the given amount, zeroing what leaves the band."""
import itertools
from fractions import Fraction

import astropy.units as u
import numpy as np
import z3

import pulsarbat as pb
from pbsym.modes import Raised, SigView, cterm
from pbsym.runner import Unit
from pbsym.stubs import standard_patches
from pbsym.symnd import SymND, plain

from .common import (RV, cis, cmul, cneq, compare_signals, dft_terms, iterm, magnitude_bound, meta_checks, neq, rterm,
                     select, zceil, zfloor)

META = {
    "stubs": [
        "np proxy (array/asarray keep E-arrays, nditer for object arrays, pi symbolic); np.fft.fftshift/ifftshift are NumPy's own",
        "scipy.fft.fft/ifft replaced by the exact DFT with exact roots of unity when given an E-array",
        "int() in transforms concretises a symbolic integer by a bounded, exhaustively enumerated fork",
        "astropy Time replaced by exact-real SymTime; Quantity is the real astropy class with dtype=object",
    ],
    "bounds": {"N": "quick {1,2,3,4}; thorough adds {6,8}", "sample shapes": "(1,), (2,), (1,2), (2,2)",
               "shift shapes": "scalar and every shape that broadcasts against the sample shape",
               "whole-bin shifts": "|m| <= N+2 (1 element), N+1 (2), 1 (4)", "fractional shifts": "|phi*N| < N+2, N in {1,2,4}",
               "sample_rate": "concrete 4 kHz (keeps shift*dt linear); center_freq, start_time symbolic"},
    "assumptions": ["exact real arithmetic (casting the mixing phasor to the signal dtype and FFT round-off are outside the claim)"],
    "outside": ["N not in the listed set", "complex64 accuracy", "Dask-backed data", "symbolic sample_rate"],
}

SR_HZ = 4000


def shift_shapes(sshape):
    out = [()]
    for r in range(1, len(sshape) + 1):
        lead = sshape[:r]
        opts = [[d] if d == 1 else [d, 1] for d in lead]
        for combo in itertools.product(*opts):
            out.append(tuple(combo))
    return out


class BinShift(Unit):
    """whole-bin (kind='bin') or fractional (kind='frac') frequency shifts on a Baseband/DualPol signal."""
    functions = ("pulsarbat.transforms.transforms:freq_shift", "pulsarbat.core:Signal.like",
                 "pulsarbat.core:BasebandSignal.__init__", "pulsarbat.core:RadioSignal.__init__", "pulsarbat.core:Signal.__init__")
    witnesses = 1
    variants = (None, "negzero")

    def patches(self):
        return standard_patches(concretize_int=True)

    def __init__(self, kind, N, sshape, shift_shape, c64=False, t0=True, align="center", units=("Hz", "Hz")):
        self.kind, self.N, self.sshape, self.shift_shape = kind, N, tuple(sshape), tuple(shift_shape)
        self.units = units                     # units in which (sample_rate, shift) are given
        self.c64, self.t0, self.align = c64, t0, align
        k = int(np.prod(shift_shape)) if shift_shape else 1
        self.mmax = N + 2 if k == 1 else (N + 1 if k == 2 else 1)
        self.dual = len(sshape) == 2 and sshape[1] == 2
        self.name = f"{kind}-N{N}-s{'x'.join(map(str, sshape))}-sh{'x'.join(map(str, shift_shape)) or 'scalar'}" \
                    f"{'-c64' if c64 else ''}{'' if t0 else '-not0'}-{align}{'' if units == ('Hz', 'Hz') else '-' + units[0] + '-' + units[1]}"
        self.bounds = {"N": N, "sample_shape": list(sshape), "shift_shape": list(shift_shape), "complex64": c64,
                       "start_time": t0, "freq_align": align, "units(sample_rate,shift)": list(units),
                       ("|m|<=" if kind == "bin" else "|phi*N|<"): self.mmax + (0 if kind == "bin" else 1)}

    def build(self, S):
        N = self.N
        z = S.carray("z", (N,) + self.sshape, np.complex64 if self.c64 else np.complex128)
        cf = S.real("cf")
        S.assume(cf > -10**7)
        S.assume(cf < 10**7)
        t0 = None
        if self.t0:
            t0v = S.real("t0")
            S.assume(t0v > -10**6)
            S.assume(t0v < 10**6)
            t0 = S.time(t0v)
        FU = {"Hz": (u.Hz, 1), "kHz": (u.kHz, 1000), "MHz": (u.MHz, 10**6)}
        sru, srs = FU[self.units[0]]
        shu, shs = FU[self.units[1]]
        kw = dict(sample_rate=(SR_HZ / srs) * sru, start_time=t0, center_freq=S.quantity(cf, u.Hz), freq_align=self.align)
        if self.dual:
            sig = pb.DualPolarizationSignal(z, pol_type="linear", **kw)
        else:
            sig = pb.BasebandSignal(z, **kw)
        lim = self.mmax

        def mk(name):
            if self.kind == "bin":
                return S.int(name, -lim, lim)
            v = S.real(name)            # v = phi*N  (shift in units of a bin)
            S.assume(v > -(lim + 1))
            S.assume(v < lim + 1)
            return v
        if self.shift_shape == ():
            m = mk("m")
            marr = None
            full = np.full(self.sshape, None, dtype=object)
            for ix in np.ndindex(*self.sshape):
                full[ix] = m
        else:
            marr = np.empty(self.shift_shape, dtype=object)
            for ix in np.ndindex(*self.shift_shape):
                marr[ix] = mk("m_" + "_".join(map(str, ix)))
            pad = marr.reshape(self.shift_shape + (1,) * (len(self.sshape) - len(self.shift_shape)))
            full = np.broadcast_to(pad, self.sshape)
        binw = Fraction(SR_HZ, N) / shs      # one bin in the shift's unit
        if S.symbolic:
            shift = S.quantity(m * binw, shu) if marr is None else S.quantity(SymND(marr) * binw, shu)
        else:
            shift = S.zero_sign(float(m) * float(binw)) * shu if marr is None else S.zero_sign(np.asarray(marr, dtype=float) * float(binw)) * shu
        return {"sig": sig, "z": z, "shift": shift, "full": full}

    def call(self, a):
        return pb.freq_shift(a["sig"], a["shift"])

    def spec(self, S, a, out):
        N = self.N
        if isinstance(out, Raised):
            return [("no-exception", z3.BoolVal(True))]
        vin, vo = SigView(a["sig"]), SigView(out)
        checks = [("length", vo.length != N), ("dtype", z3.BoolVal(vo.dtype != vin.dtype))]
        checks += meta_checks(S, vin, vo, tol_t=1e-9)
        z = plain(a["z"]) if S.symbolic else a["z"]
        mag = magnitude_bound(S, a["z"])
        tol = (2e-4 if self.c64 else 3e-5) * mag * max(1, N)
        half = N // 2                      # fftshift: bin j of the shifted order holds frequency index j - half
        for ix in np.ndindex(*self.sshape):
            col = [cterm(z[(n,) + ix]) for n in range(N)]
            if self.kind == "bin":
                m = iterm(a["full"][ix])
                X = dft_terms(col)
                Xs = [X[(j - half) % N] for j in range(N)]            # fftshift
                Ys = []
                for j in range(N):
                    re = select([x[0] for x in Xs], j - m, z3.RealVal(0))
                    im = select([x[1] for x in Xs], j - m, z3.RealVal(0))
                    Ys.append((re, im))
            else:
                v = rterm(a["full"][ix])                              # shift in bins (phi*N)
                mixed = [cmul(col[n], cis(S, v * RV(n) / N)) for n in range(N)]
                X = dft_terms(mixed)
                Xs = [X[(j - half) % N] for j in range(N)]
                lo = S.concretize(z3.If(v < 0, z3.IntVal(0), zceil(v)))          # bins j < lo are zeroed (v >= 0)
                hi = S.concretize(z3.If(v < 0, zfloor(v), z3.IntVal(0)))         # bins j >= N + hi are zeroed (v < 0)
                nearly_whole = False
                if not S.symbolic:
                    vv = float(Fraction(S.env.get(next(iter(S.env)), 0))) if False else None
                Ys = []
                for j in range(N):
                    zero = (j < lo) or (j >= N + hi)
                    Ys.append((z3.RealVal(0), z3.RealVal(0)) if zero else Xs[j])
            Y = [Ys[(k + half) % N] for k in range(N)]                 # ifftshift
            exp = dft_terms(Y, inverse=True)
            bad = [cneq(S, vo.elem(n, ix), exp[n], tol) for n in range(N)]
            checks.append((f"elem{list(ix)}", z3.Or(bad) if bad else z3.BoolVal(False)))
        return checks

    def compare(self, S, args, out, CS, cargs, cout):
        return compare_signals(S, out, CS, cout, rtol=2e-4 if self.c64 else 3e-5)

    def signature(self, label, values, detail):
        if label.startswith("elem") and self.shift_shape != self.sshape:
            ix = tuple(int(t) for t in label[5:-1].replace(" ", "").split(",") if t != "")
            padded = (self.shift_shape or (1,)) + (1,) * (len(self.sshape) - max(1, len(self.shift_shape)))
            if any(i != 0 and p == 1 and d != 1 for i, p, d in zip(ix, padded, self.sshape)):
                return "freq_shift:zeroing-skipped-on-broadcast-axis"
        return f"freq_shift:{self.kind}:{label.split('[')[0]}"


def units(tier):
    us = []
    Ns = (1, 2, 3, 4) if tier == "quick" else (1, 2, 3, 4, 6, 8)
    sshapes = [(1,), (2,), (1, 2), (2, 2)]
    aligns = itertools.cycle(["center", "bottom", "top"])
    for N in Ns:
        for ss in sshapes:
            for sh in shift_shapes(ss):
                k = int(np.prod(sh)) if sh else 1
                if tier == "quick" and len(ss) == 2 and N in (1, 3) and sh not in ((), ss):
                    continue
                if N >= 6 and (k > 2 or len(ss) == 2 and sh != ()):
                    continue          # (two-element shifts on a 2x2 sample shape at N = 8: 361 paths x 32 element queries, > 50 min)
                if N == 3 and k > 2 and tier == "quick":
                    continue
                us.append(BinShift("bin", N, ss, sh, c64=(N == 2 and sh == ()), t0=(N != 3), align=next(aligns)))
                if N in (2, 3) and sh in ((), (2,)) and len(ss) == 1 and (N, sh) != (3, (2,)):
                    # sample rate / shift given in other frequency units: shift/sample_rate must be reduced to a pure number
                    un = {(2, ()): ("kHz", "Hz"), (2, (2,)): ("MHz", "kHz"), (3, ()): ("Hz", "MHz")}[(N, sh)]
                    us.append(BinShift("bin", N, ss, sh, t0=True, align=next(aligns), units=un))
    for N in ((2, 4) if tier == "quick" else (1, 2, 4)):
        for ss, sh in (((1,), ()), ((2,), ()), ((2,), (2,)), ((2,), (1,)), ((2, 2), (2, 1)), ((2, 2), (2,)), ((2, 2), ())):
            if tier == "quick" and N == 4 and len(ss) == 2 and sh != ():
                continue
            us.append(BinShift("frac", N, ss, sh, c64=False, t0=(N != 2), align=next(aligns)))
    if tier != "quick":
        for u_ in us:
            u_.budget_s = 3000        # (two-element shifts at N = 6, 8: 225 / 361 paths, over ten minutes each)
    return us
