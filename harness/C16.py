"""C16 - every signal object satisfies its class contract; copies reproduce it faithfully."""
import itertools
from fractions import Fraction

import astropy.units as u
import numpy as np
import z3
from astropy.time import Time

import pulsarbat as pb
from pbsym import core as K
from pbsym.core import SInt
from pbsym.modes import EPOCH, Raised, SigView, qterm, time_term
from pbsym.runner import Unit
from pbsym.stubs import standard_patches
from pbsym.symnd import SymND
from pbsym.tarr import SymTime

from . import C14
from .common import RV, iterm, neq, rterm

META = {
    "stubs": ["constructor units: a shape-only duck array (ndim concrete, every dimension a symbolic integer >= 0, dtype from an enumerated "
              "list, astype(casting='safe') by numpy.can_cast)", "operation units: as C14 (E-arrays, exact DFT, SymTime, chirp stub)"],
    "bounds": {"constructor": "ndim 0..5, dimensions any non-negative integers, 12 dtypes, six classes",
               "metadata": "sample_rate / chan_bw / center_freq: any real value in a frequency, non-frequency or missing unit; scalar vs array; "
                           "freq_align, pol_type, meta, start_time: enumerated valid and invalid values",
               "operations": "the 26 operations of C14: every returned signal goes through the invariant checker"},
    "assumptions": ["exact real arithmetic"],
    "outside": ["pickling and the Dask container helpers (solver terms cannot be pickled or put into Dask arrays)"],
}
CLASSES = [pb.Signal, pb.RadioSignal, pb.IntensitySignal, pb.FullStokesSignal, pb.BasebandSignal, pb.DualPolarizationSignal]
REQ = {pb.Signal: ((None,), ()), pb.RadioSignal: ((None, None), ()), pb.IntensitySignal: ((None, None), (np.float64, np.float32)),
       pb.FullStokesSignal: ((None, None, 4), (np.float64, np.float32)), pb.BasebandSignal: ((None, None), (np.complex128, np.complex64)),
       pb.DualPolarizationSignal: ((None, None, 2), (np.complex128, np.complex64))}
DTYPES = ["bool", "int8", "uint16", "int32", "int64", "float16", "float32", "float64", "complex64", "complex128", "object", "U3"]


def ctor_kwargs(cls):
    kw = dict(sample_rate=1 * u.MHz)
    if issubclass(cls, pb.RadioSignal):
        kw["center_freq"] = 1 * u.GHz
        if not issubclass(cls, pb.BasebandSignal):
            kw["chan_bw"] = 1 * u.kHz
    if cls is pb.DualPolarizationSignal:
        kw["pol_type"] = "linear"
    return kw


class ShapeArr:
    """shape/dtype-only stand-in for an array (constructor checks never touch the data)"""

    def __init__(self, shape, dtype):
        self.shape, self.dtype, self.ndim = tuple(shape), np.dtype(dtype), len(shape)

    @property
    def size(self):
        r = 1
        for d in self.shape:
            r = r * d
        return r

    def symbolic_len(self):
        if not self.shape:
            raise TypeError("len() of unsized object")
        return self.shape[0]

    def astype(self, dt, casting="unsafe", **k):
        if not np.can_cast(self.dtype, dt, casting=casting):
            raise TypeError(f"Cannot cast array data from {self.dtype!r} to {np.dtype(dt)!r} according to the rule '{casting}'")
        return ShapeArr(self.shape, dt)


class Ctor(Unit):
    functions = ("pulsarbat.core:Signal.__init__", "pulsarbat.core:RadioSignal.__init__", "pulsarbat.core:BasebandSignal.__init__",
                 "pulsarbat.core:DualPolarizationSignal.__init__")
    witnesses = 2
    max_paths = 4000

    def __init__(self, cls, ndim, dtype):
        self.cls, self.ndim, self.dtype = cls, ndim, dtype
        self.name = f"ctor-{cls.__name__}-nd{ndim}-{dtype}"
        self.bounds = {"class": cls.__name__, "ndim": ndim, "dtype": dtype, "dimensions": "any integers >= 0"}

    def build(self, S):
        dims = [S.int(f"d{i}", 0, 2**40) for i in range(self.ndim)]
        if S.symbolic:
            z = ShapeArr(dims, self.dtype)
        else:
            from pbsym.modes import PreconditionFailed
            if int(np.prod([int(d) for d in dims] or [1])) > 10**6:
                raise PreconditionFailed("array too large to replay concretely")
            z = np.zeros(tuple(int(d) for d in dims), dtype=self.dtype)
        return {"z": z, "dims": dims}

    def call(self, a):
        return self.cls(a["z"], **ctor_kwargs(self.cls))

    def spec(self, S, a, out):
        req_shape, req_dt = REQ[self.cls]
        dims = [iterm(d) for d in a["dims"]]
        ok = z3.BoolVal(self.ndim >= len(req_shape))
        if self.ndim >= len(req_shape):
            for d, r in zip(dims, req_shape):
                if r is not None:
                    ok = z3.And(ok, d == r)
            for d in dims[1:]:
                ok = z3.And(ok, d != 0)
        dt = np.dtype(self.dtype)
        dt_ok = (not req_dt) or dt in [np.dtype(x) for x in req_dt] or np.can_cast(dt, req_dt[0], casting="safe")
        ok = z3.And(ok, z3.BoolVal(bool(dt_ok)))
        if isinstance(out, Raised):
            return [("rejected-only-when-invalid", ok), ("raises-ValueError", z3.BoolVal(not issubclass(out.cls, ValueError)))]
        want_dt = dt if (not req_dt or dt in [np.dtype(x) for x in req_dt]) else np.dtype(req_dt[0])
        checks = [("accepted-only-when-valid", z3.Not(ok)), ("dtype", z3.BoolVal(np.dtype(out.dtype) != want_dt)),
                  ("type", z3.BoolVal(type(out) is not self.cls))]
        if issubclass(self.cls, pb.BasebandSignal):
            checks.append(("chan_bw==sample_rate", z3.BoolVal(out.chan_bw is not out.sample_rate and out.chan_bw != out.sample_rate)))
        return checks

    def witness_constraints(self, ctx):
        return [c <= 4 for c in ctx.inputs.values()]

    def compare(self, S, args, out, CS, cargs, cout):
        a, b = isinstance(out, Raised), isinstance(cout, Raised)
        if a != b:
            return [f"outcome kind differs: {out!r} vs {cout!r}"]
        if a and out.cls is not cout.cls:
            return [f"exception class differs: {out.cls} vs {cout.cls}"]
        return []

    def signature(self, label, values, detail):
        return f"constructor:{label}"


def _time_vals():
    return {"none": None, "time": "SYM", "string": "2021-03-04T05:06:07", "array-time": Time(["2021-03-04T05:06:07", "2021-03-04T05:06:08"]),
            "number": 59867.24, "quantity": 3 * u.s,
            # invalid values that are falsy (a truthiness test instead of `is not None` would take them for "no start time")
            "zero": 0, "zero-float": 0.0, "false": False, "empty-string": "", "empty-time": Time([], format="mjd")}


class MetaArg(Unit):
    """one metadata argument valid or invalid: construction succeeds iff the contract holds; assignment likewise"""
    functions = ("pulsarbat.core:Signal.sample_rate", "pulsarbat.core:RadioSignal.chan_bw", "pulsarbat.core:RadioSignal.center_freq",
                 "pulsarbat.core:RadioSignal.freq_align", "pulsarbat.core:DualPolarizationSignal.pol_type", "pulsarbat.core:Signal.meta",
                 "pulsarbat.core:Signal.start_time")
    witnesses = 1

    def __init__(self, cls, arg, variant, assign=False, nchan=2):
        self.cls, self.arg, self.variant, self.assign, self.nchan = cls, arg, variant, assign, nchan
        self.name = f"meta-{cls.__name__}-{arg}-{variant}{'-assign' if assign else ''}{'' if nchan == 2 else f'-nchan{nchan}'}"
        self.bounds = {"class": cls.__name__, "argument": arg, "variant": variant, "by_assignment": assign, "nchan": nchan}

    def build(self, S):
        v = S.real("v")
        S.assume(v > -10**9)
        S.assume(v < 10**9)
        var = self.variant
        val, valid = None, None
        pos = rterm(v) > 0
        if self.arg in ("sample_rate", "chan_bw", "center_freq"):
            need_pos = self.arg != "center_freq"
            units = {"Hz": u.Hz, "GHz": u.GHz, "per-s": 1 / u.s, "per-ms": 1 / u.ms, "s": u.s, "m": u.m, "one": u.one}
            if var in units:
                val = S.quantity(v, units[var])
                freq = var in ("Hz", "GHz", "per-s", "per-ms")
                valid = (pos if need_pos else z3.BoolVal(True)) if freq else z3.BoolVal(False)
            elif var == "plain-number":
                val, valid = v, z3.BoolVal(False)
            elif var == "array":
                val = (SymND(np.array([v, v], dtype=object)) if S.symbolic else np.array([v, v])) * u.MHz
                valid = z3.BoolVal(False)
            elif var == "none":
                val, valid = None, z3.BoolVal(False)
        elif self.arg == "freq_align":
            val, valid = var, z3.BoolVal(var in ("bottom", "center", "top"))
        elif self.arg == "pol_type":
            val, valid = var, z3.BoolVal(var in ("linear", "circular"))
        elif self.arg == "meta":
            val = {"none": None, "dict": {"a": 1}, "pairs": [("a", 1)], "int": 5, "string": "ab", "list": [1, 2],
                   # falsy values: invalid ones must still be refused, the (valid) empty dict must stay a dict
                   "zero": 0, "false": False, "zero-float": 0.0, "empty-dict": {}}[var]
            valid = z3.BoolVal(var in ("none", "dict", "pairs", "empty-dict"))
        elif self.arg == "start_time":
            tv = _time_vals()[var]
            val = S.time(v) if tv == "SYM" else tv
            valid = z3.BoolVal(var in ("none", "time", "string"))
        return {"val": val, "valid": valid, "v": v}

    def _base_kw(self, S):
        kw = ctor_kwargs(self.cls)
        return kw

    def call(self, a):
        cls = self.cls
        shape = tuple((self.nchan if i == 1 else 2) if r is None else r for i, r in enumerate(REQ[cls][0]))
        dt = REQ[cls][1][0] if REQ[cls][1] else np.float64
        z = np.zeros(shape, dtype=dt)
        kw = ctor_kwargs(cls)
        if self.assign:
            sig = cls(z, **kw)
            before = getattr(sig, self.arg)
            try:
                setattr(sig, self.arg, a["val"])
            except Exception as e:
                return {"sig": sig, "raised": type(e), "kept": getattr(sig, self.arg) is before}
            return {"sig": sig, "raised": None}
        kw[self.arg] = a["val"]
        sig = cls(z, **kw)
        return {"sig": sig, "raised": None}

    def spec(self, S, a, out):
        valid = a["valid"]
        if isinstance(out, Raised):
            return [("rejected-only-when-invalid", valid), ("raises-ValueError", z3.BoolVal(not issubclass(out.cls, ValueError)))]
        if out["raised"] is not None:
            return [("rejected-only-when-invalid", valid), ("raises-ValueError", z3.BoolVal(not issubclass(out["raised"], ValueError))),
                    ("attribute-kept-after-failed-assignment", z3.BoolVal(not out["kept"]))]
        sig = out["sig"]
        checks = [("accepted-only-when-valid", z3.Not(valid))]
        got = getattr(sig, self.arg)
        if self.arg in ("sample_rate", "chan_bw", "center_freq") and isinstance(got, u.Quantity):
            checks.append(("stored-value", neq(S, qterm(got, u.Hz), qterm(a["val"], u.Hz), 1e-6) if isinstance(a["val"], u.Quantity) else z3.BoolVal(True)))
            if self.arg == "sample_rate" and isinstance(sig, pb.BasebandSignal) and not self.assign:
                checks.append(("chan_bw==sample_rate", neq(S, qterm(sig.chan_bw, u.Hz), qterm(got, u.Hz), 1e-6)))
        elif self.arg == "freq_align":
            checks.append(("stored-value", z3.BoolVal(got != ("center" if sig.nchan % 2 else a["val"]))))
        elif self.arg == "pol_type":
            checks.append(("stored-value", z3.BoolVal(got != a["val"])))
        elif self.arg == "meta":
            checks.append(("stored-value", z3.BoolVal(not (got is None or isinstance(got, dict)))))
            if isinstance(a["val"], (dict, list)):
                checks.append(("stored-value-equals-the-given-mapping", z3.BoolVal(got != dict(a["val"]))))
            checks.append(("meta-is-a-copy", z3.BoolVal(got is a["val"] and got is not None)))
        elif self.arg == "start_time":
            ok = got is None or (getattr(got, "isscalar", False) and isinstance(got, (Time, SymTime)))
            checks.append(("stored-value", z3.BoolVal(not ok)))
        return checks

    def signature(self, label, values, detail):
        return f"metadata:{self.arg}:{label}"


def invariant(S, sig, tag):
    """the class contract as checks on one signal object"""
    cls = type(sig)
    bad = []
    if cls not in REQ:
        return [(tag + "known-class", z3.BoolVal(True))]
    req_shape, req_dt = REQ[cls]
    d = sig.data
    shape = tuple(d.shape)
    ok_shape = len(shape) >= len(req_shape) and all(r is None or s == r for s, r in zip(shape, req_shape)) and all(s != 0 for s in shape[1:])
    bad.append((tag + "shape", z3.BoolVal(not ok_shape)))
    if req_dt:
        bad.append((tag + "dtype", z3.BoolVal(np.dtype(d.dtype) not in [np.dtype(x) for x in req_dt])))
    sr = sig.sample_rate
    bad.append((tag + "sample_rate-unit", z3.BoolVal(not (isinstance(sr, u.Quantity) and sr.unit.is_equivalent(u.Hz) and sr.isscalar))))
    if isinstance(sr, u.Quantity) and sr.unit.is_equivalent(u.Hz):
        bad.append((tag + "sample_rate-positive", qterm(sr, u.Hz) <= 0))
    st = sig.start_time
    bad.append((tag + "start_time", z3.BoolVal(not (st is None or getattr(st, "isscalar", False)))))
    bad.append((tag + "meta", z3.BoolVal(not (sig.meta is None or isinstance(sig.meta, dict)))))
    if isinstance(sig, pb.RadioSignal):
        bw, cf = sig.chan_bw, sig.center_freq
        okq = all(isinstance(q, u.Quantity) and q.unit.is_equivalent(u.Hz) and q.isscalar for q in (bw, cf))
        bad.append((tag + "freq-units", z3.BoolVal(not okq)))
        if okq:
            bad.append((tag + "chan_bw-positive", qterm(bw, u.Hz) <= 0))
            if isinstance(sig, pb.BasebandSignal):
                bad.append((tag + "chan_bw==sample_rate", neq(S, qterm(bw, u.Hz), qterm(sr, u.Hz), 1e-6)))
        bad.append((tag + "freq_align", z3.BoolVal(sig.freq_align not in ("bottom", "center", "top") or
                                                  (sig.nchan % 2 == 1 and sig.freq_align != "center"))))
    if isinstance(sig, pb.DualPolarizationSignal):
        bad.append((tag + "pol_type", z3.BoolVal(sig.pol_type not in ("linear", "circular"))))
    return bad


def signals_in(x):
    if isinstance(x, pb.Signal):
        yield x
    elif isinstance(x, (list, tuple)):
        for y in x:
            yield from signals_in(y)


class OpInvariant(C14.NoMutate):
    """every signal returned by an operation satisfies its class contract"""
    witnesses = 0

    def __init__(self, opname):
        C14.NoMutate.__init__(self, opname)
        self.name = f"invariant-{opname}"

    def call(self, a):
        return a["thunk"]()

    def spec(self, S, a, out):
        if isinstance(out, Raised):
            return [("(operation raised: nothing returned)", z3.BoolVal(False))]
        checks = []
        for i, sig in enumerate(signals_in(out)):
            checks += invariant(S, sig, f"result{i}:")
        return checks or [("(no signal returned)", z3.BoolVal(False))]

    def signature(self, label, values, detail):
        return f"invariant:{self.opname}:{label}"


class Like(Unit):
    functions = ("pulsarbat.core:Signal.like",)
    witnesses = 1

    def __init__(self, kind, target=None):
        self.kind, self.target = kind, target
        self.name = f"like-{kind}" + (f"-to-{target.__name__}" if target else "")
        self.bounds = {"signal": kind, "target_class": target.__name__ if target else "same"}

    def patches(self):
        return standard_patches(concretize_int=True)

    def build(self, S):
        return {"z": C14.base_signal(S, self.kind, 2)}

    def call(self, a):
        z = a["z"]
        cls = self.target or type(z)
        return {"same": cls.like(z), "newdata": cls.like(z, z.data[:1]), "override": cls.like(z, meta={"new": 2}, start_time=None)}

    def spec(self, S, a, out):
        if isinstance(out, Raised):
            return [("no-exception", z3.BoolVal(True))]
        z = a["z"]
        vin = SigView(z)
        checks = []
        for k, o in out.items():
            v = SigView(o)
            checks.append((f"{k}:type", z3.BoolVal(type(o) is not (self.target or type(z)))))
            checks.append((f"{k}:sample_rate", neq(S, v.sr, vin.sr, 1e-6)))
            for nm in ("cf", "bw"):
                if getattr(v, nm) is not None and getattr(vin, nm) is not None:
                    checks.append((f"{k}:{nm}", neq(S, getattr(v, nm), getattr(vin, nm), 1e-6)))
            for nm in ("align", "pol_type"):
                if getattr(v, nm) is not None and getattr(vin, nm) is not None:
                    checks.append((f"{k}:{nm}", z3.BoolVal(getattr(v, nm) != getattr(vin, nm))))
            if k == "override":
                checks.append((f"{k}:meta", z3.BoolVal(o.meta != {"new": 2})))
                checks.append((f"{k}:start_time", z3.BoolVal(o.start_time is not None)))
            else:
                checks.append((f"{k}:meta", z3.BoolVal(o.meta != z.meta or o.meta is z.meta)))
                checks.append((f"{k}:start_time", z3.BoolVal(v.t0 is None) if v.t0 is None else neq(S, v.t0, vin.t0, 1e-9)))
            checks.append((f"{k}:data", z3.BoolVal((o.data is not z.data) if k != "newdata" else (o.shape[0] != 1))))
            checks += invariant(S, o, f"{k}:")
        return checks

    def signature(self, label, values, detail):
        return f"like:{label}"


def units(tier):
    us = []
    for cls in CLASSES:
        nd_req = len(REQ[cls][0])
        for nd in range(0, 6):
            if tier == "quick" and nd > nd_req + 1:
                continue
            for dt in DTYPES:
                if tier == "quick" and dt in ("int8", "uint16", "float16", "U3") and nd != nd_req:
                    continue
                if nd < nd_req and dt not in ("float64", "complex64"):
                    continue
                us.append(Ctor(cls, nd, dt))
    fvars = ["Hz", "GHz", "per-s", "per-ms", "s", "m", "one", "plain-number", "array", "none"]
    for v in fvars:
        us.append(MetaArg(pb.Signal, "sample_rate", v))
        us.append(MetaArg(pb.DualPolarizationSignal, "sample_rate", v, assign=(v in ("Hz", "s", "array"))))
        us.append(MetaArg(pb.RadioSignal, "chan_bw", v, assign=(v in ("GHz", "m", "none"))))
        us.append(MetaArg(pb.FullStokesSignal, "center_freq", v, assign=(v in ("per-ms", "one", "plain-number"))))
    for v in ("bottom", "center", "top", "middle", "Center", ""):
        us.append(MetaArg(pb.RadioSignal, "freq_align", v))
        us.append(MetaArg(pb.BasebandSignal, "freq_align", v, assign=True))
        # (an odd channel count forces 'center' - but only for a value from the allowed set)
        us.append(MetaArg(pb.IntensitySignal, "freq_align", v, nchan=3))
        us.append(MetaArg(pb.RadioSignal, "freq_align", v, assign=True, nchan=1))
    for v in ("linear", "circular", "Linear", "elliptical"):
        us.append(MetaArg(pb.DualPolarizationSignal, "pol_type", v, assign=(v in ("circular", "Linear"))))
    for v in ("none", "dict", "pairs", "int", "string", "list", "zero", "false", "zero-float", "empty-dict"):
        us.append(MetaArg(pb.Signal, "meta", v, assign=(v in ("dict", "int", "zero", "empty-dict"))))
        if v in ("false", "empty-dict"):
            us.append(MetaArg(pb.RadioSignal, "meta", v))
    for v in _time_vals():
        us.append(MetaArg(pb.IntensitySignal, "start_time", v, assign=(v in ("time", "number", "zero", "empty-string"))))
    for n in C14.OPS:
        us.append(OpInvariant(n))
    for kind in ("signal", "baseband", "dual", "stokes"):
        us.append(Like(kind))
    us.append(Like("dual", pb.BasebandSignal))
    us.append(Like("stokes", pb.IntensitySignal))
    us.append(Like("baseband", pb.Signal))
    return us
