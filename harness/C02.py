"""C02 - channel frequency labels follow the band model and survive frequency slicing."""
import itertools
from fractions import Fraction

import astropy.units as u
import numpy as np
import z3

import pulsarbat as pb
from pbsym import core as K
from pbsym.modes import Raised, SigView, qterm, qterms
from pbsym.runner import Unit
from pbsym.tarr import SymSlice, TArr

from .C01 import data_checks
from .common import RV, compare_signals, iterm, meta_checks, neq, rterm

META = {
    "stubs": ["as C01 (slice stand-in; raw slice bounds stay symbolic, only the normalised pair is forked), T-arrays, SymTime",
              "np proxy in pulsarbat.core; Quantity is the real astropy class with dtype=object"],
    "bounds": {"nchan": "1..6 quick, 1..10 thorough", "alignment": "bottom/center/top", "classes": "Radio, Intensity, FullStokes, Baseband, DualPol",
               "center_freq / chan_bw": "any real / any positive real, units from {Hz, kHz, MHz, GHz}",
               "channel range": "raw bounds any integers or absent (symbolic); nested slice of a slice; Stokes component access"},
    "assumptions": ["exact real arithmetic"],
    "outside": ["float rounding of labels for extreme center_freq/chan_bw ratios", "Dask data"],
}
UNITS = {"Hz": (u.Hz, 1), "kHz": (u.kHz, 10**3), "MHz": (u.MHz, 10**6), "GHz": (u.GHz, 10**9)}
CLS = {"RadioSignal": (pb.RadioSignal, (), np.float64), "IntensitySignal": (pb.IntensitySignal, (), np.float32),
       "FullStokesSignal": (pb.FullStokesSignal, (4,), np.float64), "BasebandSignal": (pb.BasebandSignal, (), np.complex64),
       "DualPolarizationSignal": (pb.DualPolarizationSignal, (2,), np.complex128)}
ALPHA = {"bottom": Fraction(0), "center": Fraction(1, 2), "top": Fraction(1)}


def mk(S, clsname, nchan, align, ucf="MHz", ubw="kHz"):
    cls, trail, dtype = CLS[clsname]
    N = S.int("N", 0, 2**40)
    data = S.tarray("z", N, (nchan,) + trail, dtype)
    cf, bw, t0 = S.real("cf"), S.real("bw"), S.real("t0")
    S.assume(cf > -10**6)
    S.assume(cf < 10**6)
    S.assume(bw > Fraction(1, 10**6))
    S.assume(bw < 10**6)
    S.assume(t0 > -10**6)
    S.assume(t0 < 10**6)
    kw = dict(start_time=S.time(t0), center_freq=S.quantity(cf, UNITS[ucf][0]), freq_align=align)
    if issubclass(cls, pb.BasebandSignal):
        kw["sample_rate"] = S.quantity(bw, UNITS[ubw][0])
    else:
        kw["sample_rate"] = 3 * u.kHz
        kw["chan_bw"] = S.quantity(bw, UNITS[ubw][0])
    if cls is pb.DualPolarizationSignal:
        kw["pol_type"] = "linear"
    sig = cls(data, **kw)
    cf_hz = rterm(cf) * UNITS[ucf][1]
    bw_hz = rterm(bw) * UNITS[ubw][1]
    return sig, N, cf_hz, bw_hz


def model_labels(cf, bw, nchan, align):
    a = ALPHA["center" if nchan % 2 else align]
    return [cf + bw * RV(Fraction(i) + a - Fraction(nchan, 2)) for i in range(nchan)]


class Labels(Unit):
    functions = ("pulsarbat.core:RadioSignal.channel_freqs", "pulsarbat.core:RadioSignal.max_freq", "pulsarbat.core:RadioSignal.min_freq",
                 "pulsarbat.core:RadioSignal.bandwidth", "pulsarbat.core:RadioSignal.freq_align", "pulsarbat.core:RadioSignal.__init__")
    witnesses = 1

    def __init__(self, clsname, nchan, align, ucf, ubw):
        self.clsname, self.nchan, self.align, self.ucf, self.ubw = clsname, nchan, align, ucf, ubw
        self.name = f"labels-{clsname}-n{nchan}-{align}-{ucf}-{ubw}"
        self.bounds = {"class": clsname, "nchan": nchan, "freq_align": align, "units": [ucf, ubw]}

    def build(self, S):
        sig, N, cf, bw = mk(S, self.clsname, self.nchan, self.align, self.ucf, self.ubw)
        return {"sig": sig, "cf": cf, "bw": bw}

    def call(self, a):
        s = a["sig"]
        return {"f": s.channel_freqs, "max": s.max_freq, "min": s.min_freq, "bwt": s.bandwidth, "align": s.freq_align, "nchan": s.nchan}

    def spec(self, S, a, out):
        if isinstance(out, Raised):
            return [("no-exception", z3.BoolVal(True))]
        cf, bw, n = a["cf"], a["bw"], self.nchan
        want = model_labels(cf, bw, n, self.align)
        got = qterms(out["f"], u.Hz)
        tol = None if S.symbolic else 1e-6 * float(abs(K.evalz(cf, S.env)) + n * abs(K.evalz(bw, S.env)) + 1)
        mx, mn, bt = qterm(out["max"], u.Hz), qterm(out["min"], u.Hz), qterm(out["bwt"], u.Hz)
        checks = [("nchan", z3.BoolVal(out["nchan"] != n or len(got) != n)),
                  ("align-attribute", z3.BoolVal(out["align"] != ("center" if n % 2 else self.align)))]
        if len(got) == n:
            checks.append(("formula", z3.Or([neq(S, g, w, tol) for g, w in zip(got, want)])))
            checks.append(("spacing", z3.Or([neq(S, y - x, bw, tol) for x, y in zip(got, got[1:])] or [z3.BoolVal(False)])))
            e = z3.RealVal(0) if S.symbolic else RV(Fraction(tol))
            checks.append(("inside-band", z3.Or([z3.Or(g < mn - e, g > mx + e) for g in got])))
        checks.append(("band-width", z3.Or(neq(S, mx - mn, bw * n, tol), neq(S, bt, bw * n, tol))))
        checks.append(("band-centre", neq(S, mx + mn, 2 * cf, tol)))
        return checks

    def signature(self, label, values, detail):
        return f"labels:{label}"


class FreqSlice(Unit):
    functions = ("pulsarbat.core:RadioSignal._freq_slice", "pulsarbat.core:RadioSignal.__getitem__", "pulsarbat.core:RadioSignal.channel_freqs",
                 "pulsarbat.core:Signal.like", "pulsarbat.core:Signal._time_slice")
    witnesses = 2

    def __init__(self, clsname, nchan, align, pattern="11", nested=False, tstep=False):
        self.clsname, self.nchan, self.align, self.pattern, self.nested, self.tstep = clsname, nchan, align, pattern, nested, tstep
        self.name = f"fslice-{clsname}-n{nchan}-{align}-{pattern}{'-nested' if nested else ''}{'-tstep' if tstep else ''}"
        self.bounds = {"class": clsname, "nchan": nchan, "freq_align": align, "bounds_present(start,stop)": pattern,
                       "nested": nested, "with_time_slice": tstep}

    def build(self, S):
        sig, N, cf, bw = mk(S, self.clsname, self.nchan, self.align)
        a = S.int("a") if self.pattern[0] == "1" else None
        b = S.int("b") if self.pattern[1] == "1" else None
        idx = [(a, b)]
        if self.nested:
            idx.append((S.int("a2"), S.int("b2")))
        ta = S.int("ta") if self.tstep else None
        return {"sig": sig, "N": N, "cf": cf, "bw": bw, "idx": idx, "ta": ta}

    def call(self, a):
        cur = a["sig"]
        outs = []
        sym = isinstance(cur.data, TArr)
        for j, (x, y) in enumerate(a["idx"]):
            ts = (SymSlice(a["ta"] if j == 0 else None, None, None, force=True) if sym
                  else slice(a["ta"] if j == 0 else None, None, None))
            fs = SymSlice(x, y, None, force=True) if sym else slice(x, y)
            cur = cur[ts, fs]
            outs.append(cur)
        return outs

    def _norm(self, S, x, y, n):
        def nv(v, default):
            if v is None:
                return default
            v = iterm(v)
            return z3.If(v < 0, z3.If(v + n < 0, z3.IntVal(0), v + n), z3.If(v > n, z3.IntVal(n), v))
        return S.concretize(nv(x, z3.IntVal(0))), S.concretize(nv(y, z3.IntVal(n)))

    def spec(self, S, a, out):
        n = self.nchan
        labels = model_labels(a["cf"], a["bw"], n, self.align)
        cur_n = n
        sel = list(range(n))
        empty_at = None
        for j, (x, y) in enumerate(a["idx"]):
            st, sp = self._norm(S, x, y, cur_n)
            if sp <= st:
                empty_at = j
                break
            sel = sel[st:sp]
            cur_n = sp - st
        if isinstance(out, Raised):
            return [("raises-only-for-empty-range", z3.BoolVal(empty_at is None))]
        if empty_at is not None:
            return [("empty-range-must-raise", z3.BoolVal(True))]
        vin, vo = SigView(a["sig"]), SigView(out[-1])
        want = [labels[i] for i in sel]
        got = vo.chan_freqs()
        tol = None if S.symbolic else 1e-6 * float(abs(K.evalz(a["cf"], S.env)) + n * abs(K.evalz(a["bw"], S.env)) + 1)
        checks = [("nchan", z3.BoolVal(len(got) != len(want) or vo.sample_shape[0] != len(want)))]
        if len(got) == len(want):
            checks.append(("labels", z3.Or([neq(S, g, w, tol) for g, w in zip(got, want)])))
        checks += meta_checks(S, vin, vo, what=("cls", "sr", "bw", "pol_type"))
        N = iterm(a["N"])
        if self.tstep:
            ta = iterm(a["ta"])
            st = z3.If(ta < 0, z3.If(ta + N < 0, z3.IntVal(0), ta + N), z3.If(ta > N, N, ta))
        else:
            st = z3.IntVal(0)
        L = N - st
        checks.append(("length", vo.length != L))
        if vo.t0 is None:
            checks.append(("start_time", z3.BoolVal(True)))
        else:
            dt = 1 / vin.sr
            checks.append(("start_time", z3.And(L > 0, neq(S, vo.t0, vin.t0 + z3.ToReal(st) * dt, 1e-6))))
        checks += data_checks(S, vin, vo, st, L, 1, foff=sel[0])
        return checks

    def witness_constraints(self, ctx):
        i = ctx.inputs
        return [i["N"] <= 12, i["cf"] >= 1000, i["bw"] >= 1, i["bw"] <= 100] + \
            [z3.And(i[k] <= 12, i[k] >= -12) for k in ("a", "b", "a2", "b2", "ta") if k in i]

    def compare(self, S, args, out, CS, cargs, cout):
        if isinstance(out, Raised) or isinstance(cout, Raised):
            ok = isinstance(out, Raised) and isinstance(cout, Raised) and out.cls is cout.cls
            return [] if ok else [f"outcome differs: {out!r} vs {cout!r}"]
        return compare_signals(S, out[-1], CS, cout[-1], rtol=1e-9, time_tol=1e-6)

    def signature(self, label, values, detail):
        return f"freq-slice:{label}"


class StokesSelect(Unit):
    functions = ("pulsarbat.core:FullStokesSignal.__getitem__", "pulsarbat.core:FullStokesSignal.stokesI", "pulsarbat.core:Signal.like")
    witnesses = 1

    def __init__(self, nchan, align, trail=()):
        self.nchan, self.align, self.trail = nchan, align, tuple(trail)
        self.name = f"stokes-n{nchan}-{align}-t{'x'.join(map(str, trail)) or '0'}"
        self.bounds = {"nchan": nchan, "freq_align": align, "trailing": list(trail)}

    def build(self, S):
        N = S.int("N", 0, 2**40)
        data = S.tarray("z", N, (self.nchan, 4) + self.trail, np.float64)
        cf, bw, t0, dt = S.real("cf"), S.real("bw"), S.real("t0"), S.real("dt")
        for x, lo, hi in ((cf, -10**6, 10**6), (bw, Fraction(1, 1000), 10**6), (t0, -10**6, 10**6), (dt, Fraction(1, 10**9), 1000)):
            S.assume(x > lo)
            S.assume(x < hi)
        sig = pb.FullStokesSignal(data, sample_rate=S.quantity(1 / dt, u.Hz), start_time=S.time(t0), center_freq=S.quantity(cf, u.MHz),
                                  chan_bw=S.quantity(bw, u.kHz), freq_align=self.align, meta={"x": 1})
        return {"sig": sig, "N": N}

    def call(self, a):
        s = a["sig"]
        r = {k: s[k] for k in "IQUV"}
        r["attrI"], r["attrQ"], r["attrU"], r["attrV"] = s.stokesI, s.stokesQ, s.stokesU, s.stokesV
        try:
            s["X"]
            r["bad-key"] = "no error"
        except KeyError:
            r["bad-key"] = "KeyError"
        return r

    def spec(self, S, a, out):
        if isinstance(out, Raised):
            return [("no-exception", z3.BoolVal(True))]
        vin = SigView(a["sig"])
        N = iterm(a["N"])
        checks = [("bad-key-refused", z3.BoolVal(out["bad-key"] != "KeyError"))]
        fin = vin.chan_freqs()
        for i, k in enumerate("IQUV"):
            for name in (k, "attr" + k):
                vo = SigView(out[name])
                checks.append((f"{name}:type", z3.BoolVal(vo.cls is not pb.IntensitySignal)))
                checks += [(f"{name}:{n}", b) for n, b in meta_checks(S, vin, vo, what=("sr", "t0", "cf", "bw", "align"), tol_t=1e-9)]
                checks.append((f"{name}:meta", z3.BoolVal(vo.meta != vin.meta)))
                checks.append((f"{name}:length", vo.length != N))
                checks.append((f"{name}:labels", z3.Or([neq(S, x, y, 1e-3) for x, y in zip(vo.chan_freqs(), fin)])))
                bad = []
                kk = z3.Int("k_skolem") if S.symbolic else None
                for c in range(self.nchan):
                    for tx in np.ndindex(*self.trail):
                        if S.symbolic:
                            bad.append(z3.And(kk >= 0, kk < N, vo.elem(kk, (c,) + tx)[0] != vin.elem(kk, (c, i) + tx)[0]))
                        else:
                            for t in range(min(vo.nlen, 8)):
                                bad.append(vo.elem(t, (c,) + tx)[0] != vin.elem(t, (c, i) + tx)[0])
                checks.append((f"{name}:component", z3.Or(bad) if bad else z3.BoolVal(False)))
        return checks

    def witness_constraints(self, ctx):
        return [ctx.inputs["N"] <= 8]

    def compare(self, S, args, out, CS, cargs, cout):
        if isinstance(out, Raised) or isinstance(cout, Raised):
            return ["outcome kind differs"] if isinstance(out, Raised) != isinstance(cout, Raised) else []
        return compare_signals(S, out["U"], CS, cout["U"], rtol=1e-9, time_tol=1e-6)

    def signature(self, label, values, detail):
        return f"stokes-select:{label}"


def units(tier):
    us = []
    nmax = 6 if tier == "quick" else 10
    ucyc = itertools.cycle([("MHz", "kHz"), ("GHz", "MHz"), ("Hz", "Hz"), ("kHz", "GHz")])
    ccyc = itertools.cycle(list(CLS))
    for n in range(1, nmax + 1):
        for al in ("bottom", "center", "top"):
            a, b = next(ucyc)
            us.append(Labels(next(ccyc), n, al, a, b))
    pats = ["11", "10", "01", "00"]
    for n in ((1, 2, 3, 4) if tier == "quick" else (1, 2, 3, 4, 5, 6, 7)):
        for al in ("bottom", "center", "top"):
            for p in pats:
                if tier == "quick" and p != "11" and (n + len(al)) % 2:
                    continue
                us.append(FreqSlice(next(ccyc), n, al, p))
            if n >= 2:
                us.append(FreqSlice(next(ccyc), n, al, "11", tstep=True))
            if n >= 3 and (tier != "quick" or al != "center"):
                us.append(FreqSlice(next(ccyc), n, al, "11", nested=True))
    for n in ((1, 2) if tier == "quick" else (1, 2, 3, 4)):
        for al in ("bottom", "top", "center"):
            us.append(StokesSelect(n, al, trail=((2,) if n == 2 else ())))
    return us
