"""CrossHair contracts for pulsarbat.pulsar.phase._parse_string (run by harness/C15.py: `crosshair check --report_all`).

Precondition = the plain-decimal grammar of property C15 (optional sign, digits with or without a decimal point, optional E/D exponent of
one digit with optional sign, optional trailing j), length bounded by PBSYM_PARSE_MAXLEN.  Postcondition = no exception, count + frac equals
the exact decimal value within 2^-52 relative/absolute, the parts are real unless the string ends in j.
"""
import os
from fractions import Fraction

from pulsarbat.pulsar.phase import _parse_string

MAXLEN = int(os.environ.get("PBSYM_PARSE_MAXLEN", "5"))
DIGITS = "0123456789"


def grammar_ok(s: str) -> bool:
    if not (1 <= len(s) <= MAXLEN):
        return False
    i = 0
    n = len(s)
    if s[i] in "+-":
        i += 1
    nd = 0
    while i < n and s[i] in DIGITS:
        i += 1
        nd += 1
    if i < n and s[i] == ".":
        i += 1
        while i < n and s[i] in DIGITS:
            i += 1
            nd += 1
    if nd == 0:
        return False
    if i < n and s[i] in "eEdD":
        i += 1
        if i < n and s[i] in "+-":
            i += 1
        ne = 0
        while i < n and s[i] in DIGITS and ne < 1:
            i += 1
            ne += 1
        if ne == 0:
            return False
    if i < n and s[i] in "jJ":
        i += 1
    return i == n


def exact_value(s: str):
    body = s.strip().lower().replace("d", "e")
    imag = body.endswith("j")
    if imag:
        body = body[:-1]
    return Fraction(body), imag


def exact_check(s: str) -> str:
    """'' if _parse_string(s) meets the property, otherwise a description of the failure (exact rational arithmetic)"""
    try:
        count, frac = _parse_string(s)
    except Exception as e:
        return f"raises {type(e).__name__}: {e}"
    want, imag = exact_value(s)
    for part in (count, frac):
        c = complex(part)
        if imag and c.real != 0:
            return f"imaginary string gives a part with a real component: {part!r}"
        if not imag and c.imag != 0:
            return f"real string gives a part with an imaginary component: {part!r}"
    pick = (lambda z: complex(z).imag) if imag else (lambda z: complex(z).real)
    got = Fraction(pick(count)) + Fraction(pick(frac))
    tol = Fraction(1, 2**52) * max(1, abs(want))
    if abs(got - want) > tol:
        return f"count + frac = {float(got)!r} but the string denotes {float(want)!r}"
    return ""


def parse_ok(s: str) -> bool:
    """
    pre: grammar_ok(s)
    post: __return__
    """
    return exact_check(s) == ""
