"""CrossHair contracts for pulsarbat.pulsar.phase._parse_string (run by harness/C15.py: `crosshair check --report_all`).

Precondition = the plain-decimal grammar of property C15 (optional sign, digits with or without a decimal point, optional E/D exponent of
one digit with optional sign, optional trailing j), length bounded by PBSYM_PARSE_MAXLEN.  Postcondition = no exception, count + frac equals
the exact decimal value within 2^-52 relative/absolute, the parts are real unless the string ends in j.
"""
import os
from fractions import Fraction

from pulsarbat.pulsar.phase import _parse_string

MAXLEN = int(os.environ.get("PBSYM_PARSE_MAXLEN", "5"))
DIGITS = "0123456789"


def grammar_ok(s: str) -> bool:
    if not (1 <= len(s) <= MAXLEN):
        return False
    i = 0
    n = len(s)
    if s[i] in "+-":
        i += 1
    nd = 0
    while i < n and s[i] in DIGITS:
        i += 1
        nd += 1
    if i < n and s[i] == ".":
        i += 1
        while i < n and s[i] in DIGITS:
            i += 1
            nd += 1
    if nd == 0:
        return False
    if i < n and s[i] in "eEdD":
        i += 1
        if i < n and s[i] in "+-":
            i += 1
        ne = 0
        while i < n and s[i] in DIGITS and ne < 1:
            i += 1
            ne += 1
        if ne == 0:
            return False
    if i < n and s[i] in "jJ":
        i += 1
    return i == n


def exact_value(s: str):
    """exact rational value of a string of the grammar (manual digit arithmetic: no float(), no regular expressions)"""
    body = s.strip().lower()
    imag = body.endswith("j")
    if imag:
        body = body[:-1]
    neg = False
    i = 0
    if body[i] in "+-":
        neg = body[i] == "-"
        i += 1
    mant = 0
    scale = 0
    seen_dot = False
    while i < len(body) and (body[i] in DIGITS or body[i] == "."):
        if body[i] == ".":
            seen_dot = True
        else:
            mant = mant * 10 + (ord(body[i]) - 48)
            if seen_dot:
                scale += 1
        i += 1
    exp = 0
    if i < len(body) and body[i] in "ed":
        i += 1
        eneg = False
        if body[i] in "+-":
            eneg = body[i] == "-"
            i += 1
        while i < len(body):
            exp = exp * 10 + (ord(body[i]) - 48)
            i += 1
        if eneg:
            exp = -exp
    val = Fraction(mant) * (Fraction(10) ** (exp - scale))
    return (-val if neg else val), imag


def exact_check(s: str) -> str:
    """'' if _parse_string(s) meets the property, otherwise a description of the failure (exact rational arithmetic)"""
    try:
        count, frac = _parse_string(s)
    except Exception as e:
        return f"raises {type(e).__name__}: {e}"
    want, imag = exact_value(s)
    for part in (count, frac):
        c = complex(part)
        if imag and c.real != 0:
            return f"imaginary string gives a part with a real component: {part!r}"
        if not imag and c.imag != 0:
            return f"real string gives a part with an imaginary component: {part!r}"
    pick = (lambda z: complex(z).imag) if imag else (lambda z: complex(z).real)
    got = Fraction(pick(count)) + Fraction(pick(frac))
    tol = Fraction(1, 2**52) * max(1, abs(want))
    if abs(got - want) > tol:
        return f"count + frac = {float(got)!r} but the string denotes {float(want)!r}"
    return ""


def parse_ok(s: str) -> bool:
    """
    pre: grammar_ok(s)
    post: __return__
    """
    return exact_check(s) == ""


EXEMPLARS = ["5", "0.5", "5.0", "0.0", ".5", "5.", "1e3", "-0.18e-2", "+12.25", "1.5d2", "1.5D-2", "12.25e1", "007.50", "0e5",
             "0.5j", "5j", "0.0j", "-2.5e1j", "9876543210.0123456789", "98765432109876.543210123456789e-4", "  3.25 "]


def from_string_check(s: str) -> str:
    """'' if Phase.from_string(s) meets the property (exact rational comparison), else a description"""
    from pulsarbat.pulsar.phase import Phase
    import numpy as np
    try:
        p = Phase.from_string(s)
    except Exception as e:
        return f"from_string raises {type(e).__name__}: {e}"
    want, imag = exact_value(s)
    if bool(p.imaginary) != imag:
        return f"imaginary flag {p.imaginary} for a string that {'ends' if imag else 'does not end'} in j"
    v = p.view(np.ndarray)
    ci, cf = float(v["int"]), float(v["frac"])
    if ci != int(ci) or abs(cf) > 0.5:
        return f"result not normalised: ({ci}, {cf})"
    got = Fraction(ci) + Fraction(cf)
    if abs(got - want) > Fraction(1, 2**52) * max(1, abs(want)):
        return f"value {float(got)!r} for a string denoting {float(want)!r}"
    return ""
