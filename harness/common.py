"""Helpers shared by the property harnesses."""
from fractions import Fraction

import astropy.units as u
import numpy as np
import z3

import pulsarbat as pb
from pbsym import core as K
from pbsym.core import SBool, SComplex, SInt, SNum, SReal, rv, _toreal
from pbsym.modes import (ConcMode, Raised, SigView, SymMode, cterm, qterm, qterms, term_of_number, time_term)
from pbsym.symnd import SymND, plain
from pbsym.tarr import zint

RV = K.realval


def iterm(x):
    """z3 Int term of an integer-valued scalar (shadow or concrete)."""
    if isinstance(x, SInt):
        return x.e
    if isinstance(x, np.ndarray) and x.ndim == 0:
        return iterm(x[()])
    if isinstance(x, z3.ExprRef):
        return x
    return z3.IntVal(int(x))


def rterm(x):
    return term_of_number(x)


def neq(S, a, b, tol=None):
    """'a differs from b': exact in symbolic mode, beyond tol (absolute, a Fraction/float) in concrete mode."""
    if S.symbolic or tol is None:
        if S.symbolic and z3.is_expr(a) and z3.is_expr(b):
            # polynomial normal form first: identical polynomials need no solver work
            d = K.reduce_consts(a - b)
            if z3.is_rational_value(d) and d.numerator_as_long() == 0:
                return z3.BoolVal(False)
            return d != 0
        return a != b
    t = RV(Fraction(tol))
    d = a - b
    return z3.Or(d > t, -d > t)


def cneq(S, a, b, tol=None):
    """complex (re, im) pairs differ"""
    return z3.Or(neq(S, a[0], b[0], tol), neq(S, a[1], b[1], tol))


def zabs(t):
    return z3.If(t >= 0, t, -t)


def zmax(ts):
    r = ts[0]
    for t in ts[1:]:
        r = z3.If(t > r, t, r)
    return r


def zmin(ts):
    r = ts[0]
    for t in ts[1:]:
        r = z3.If(t < r, t, r)
    return r


def zceil(t):
    """ceil of a z3 real term as Int term"""
    return -z3.ToInt(-t)


def zfloor(t):
    return z3.ToInt(t)


def select(terms, idx, default):
    """terms[idx] for a z3 Int idx (ITE chain); default when out of range."""
    r = default
    for m, t in enumerate(terms):
        r = z3.If(idx == m, t, r)
    return r


def bcast_index(shape_small, ix_full):
    """Index into an array of shape `shape_small` (already aligned to the leading sample axes and padded
    with trailing length-1 axes by the code) for the full sample index."""
    out = []
    for d, i in zip(shape_small, ix_full):
        out.append(0 if d == 1 else i)
    return tuple(out)


def magnitude_bound(S, arr, default=1.0):
    """max |element| of concrete array (for tolerances); 1 in symbolic mode"""
    if S.symbolic:
        return default
    a = np.asarray(arr)
    return float(max(1.0, np.max(np.abs(a)))) if a.size else 1.0


SIGNAL_KW = {
    "Signal": {},
    "RadioSignal": {"center_freq", "chan_bw", "freq_align"},
    "IntensitySignal": {"center_freq", "chan_bw", "freq_align"},
    "FullStokesSignal": {"center_freq", "chan_bw", "freq_align"},
    "BasebandSignal": {"center_freq", "freq_align"},
    "DualPolarizationSignal": {"center_freq", "freq_align", "pol_type"},
}


def meta_checks(S, vin, vout, what=("cls", "sr", "t0", "cf", "bw", "align", "pol_type"), t0_shift=None, tol_t=1e-9):
    """bad-formulas stating that metadata of vout differs from vin (t0 may be shifted by t0_shift seconds)."""
    bad = []
    if "cls" in what:
        bad.append(("type", z3.BoolVal(vout.cls is not vin.cls)))
    if "sr" in what:
        bad.append(("sample_rate", neq(S, vout.sr, vin.sr, None if S.symbolic else Fraction(1, 10**9) * 1)))
    if "t0" in what:
        if vin.t0 is None or vout.t0 is None:
            bad.append(("start_time", z3.BoolVal((vin.t0 is None) != (vout.t0 is None))))
        else:
            exp = vin.t0 if t0_shift is None else vin.t0 + t0_shift
            bad.append(("start_time", neq(S, vout.t0, exp, tol_t)))
    for k in ("cf", "bw"):
        if k in what and getattr(vin, k) is not None:
            if getattr(vout, k) is None:
                bad.append((k, z3.BoolVal(True)))
            else:
                bad.append((k, neq(S, getattr(vout, k), getattr(vin, k), 1e-6)))
    for k in ("align", "pol_type"):
        if k in what and getattr(vin, k) is not None:
            bad.append((k, z3.BoolVal(getattr(vout, k) != getattr(vin, k))))
    return bad


def compare_signals(S, sym_out, CS, conc_out, rtol=1e-5, time_tol=1e-8):
    """Witness comparison: symbolic outcome evaluated at the concrete inputs vs the real outcome.
    Returns a list of problems (empty = agree)."""
    problems = []
    if isinstance(sym_out, Raised) or isinstance(conc_out, Raised):
        if not (isinstance(sym_out, Raised) and isinstance(conc_out, Raised)):
            return [f"outcome kind differs: symbolic={sym_out!r} real={conc_out!r}"]
        if sym_out.cls is not conc_out.cls:
            return [f"exception class differs: symbolic={sym_out.cls.__name__} real={conc_out.cls.__name__}"]
        return []
    vs = sym_out if isinstance(sym_out, SigView) else SigView(sym_out)
    vc = conc_out if isinstance(conc_out, SigView) else SigView(conc_out)
    ev = lambda t: K.evalz(t, CS.env, CS.ufs)
    if vs.cls is not vc.cls:
        problems.append(f"type: {vs.cls.__name__} vs {vc.cls.__name__}")
    ls, lc = ev(vs.length), ev(vc.length)
    if ls != lc:
        problems.append(f"length: {ls} vs {lc}")
        return problems
    if vs.sample_shape != vc.sample_shape:
        problems.append(f"sample shape: {vs.sample_shape} vs {vc.sample_shape}")
        return problems
    if vs.dtype != vc.dtype:
        problems.append(f"dtype: {vs.dtype} vs {vc.dtype}")
    for nm in ("sr", "cf", "bw"):
        a, b = getattr(vs, nm), getattr(vc, nm)
        if (a is None) != (b is None):
            problems.append(f"{nm}: presence differs")
        elif a is not None:
            x, y = ev(a), ev(b)
            if abs(x - y) > Fraction(rtol) * max(abs(y), Fraction(1, 10**12)):
                problems.append(f"{nm}: {float(x)} vs {float(y)}")
    if (vs.t0 is None) != (vc.t0 is None):
        problems.append("start_time presence differs")
    elif vs.t0 is not None:
        x, y = ev(vs.t0), ev(vc.t0)
        if abs(x - y) > Fraction(time_tol):
            problems.append(f"start_time: {float(x)} vs {float(y)}")
    for nm in ("align", "pol_type"):
        if getattr(vs, nm) != getattr(vc, nm):
            problems.append(f"{nm}: {getattr(vs, nm)} vs {getattr(vc, nm)}")
    n = int(lc)
    scale = 1.0
    if n and not isinstance(vc.data, type(None)):
        a = np.asarray(vc.data)
        scale = float(max(1.0, np.max(np.abs(a)))) if a.size else 1.0
    tol = Fraction(rtol) * Fraction(scale)
    for t in range(min(n, 16)):
        for ix in np.ndindex(*vs.sample_shape):
            (ar, ai), (br, bi) = vs.elem(t, ix), vc.elem(t, ix)
            xr, xi, yr, yi = ev(ar), ev(ai), ev(br), ev(bi)
            if abs(xr - yr) > tol or abs(xi - yi) > tol:
                problems.append(f"data[{t}]{ix}: {complex(float(xr), float(xi))} vs {complex(float(yr), float(yi))}")
                if len(problems) > 4:
                    return problems
    return problems


def cis(S, phi):
    """exp(2 pi i phi) as (re, im) terms; same canonicalisation as the code-side exp (pbsym.core.cis_cycles)."""
    c = K.cis_cycles(phi) if S.symbolic else K.cis_cycles(phi, ctx=None)
    return c.re, c.im


def cmul(a, b):
    return (a[0] * b[0] - a[1] * b[1], a[0] * b[1] + a[1] * b[0])


def cadd(a, b):
    return (a[0] + b[0], a[1] + b[1])


def dft_terms(col, inverse=False, S=None):
    """Exact DFT of a list of (re, im) terms using exact roots of unity (len(col) | 24)."""
    N = len(col)
    out = []
    sgn = 1 if inverse else -1
    for k in range(N):
        acc = (z3.RealVal(0), z3.RealVal(0))
        for m in range(N):
            w = K.root_of_unity(N, sgn * k * m)
            acc = cadd(acc, cmul(col[m], (w.re, w.im)))
        if inverse:
            acc = (acc[0] / N, acc[1] / N)
        out.append(acc)
    return out


def poly_of(e, var):
    """Exact univariate polynomial {degree: Fraction} of a z3 real term built from +, -, *, numerals, division by numerals and `var`;
    None if the term has any other structure."""
    memo = {}

    def mul(a, b):
        out = {}
        for i, x in a.items():
            for j, y in b.items():
                out[i + j] = out.get(i + j, 0) + x * y
        return out

    def go(t):
        k = t.get_id()
        if k in memo:
            return memo[k]
        r = go1(t)
        memo[k] = r
        return r

    def go1(t):
        if z3.is_rational_value(t) or z3.is_int_value(t):
            return {0: Fraction(t.numerator_as_long(), t.denominator_as_long()) if z3.is_rational_value(t) else Fraction(t.as_long())}
        if z3.eq(t, var):
            return {1: Fraction(1)}
        kind = t.decl().kind()
        ch = t.children()
        if kind == z3.Z3_OP_TO_REAL:
            return go(ch[0])
        if kind == z3.Z3_OP_ADD:
            out = {}
            for c in ch:
                p = go(c)
                if p is None:
                    return None
                for d, v in p.items():
                    out[d] = out.get(d, 0) + v
            return out
        if kind == z3.Z3_OP_SUB:
            ps = [go(c) for c in ch]
            if any(p is None for p in ps):
                return None
            out = dict(ps[0])
            for p in ps[1:]:
                for d, v in p.items():
                    out[d] = out.get(d, 0) - v
            return out
        if kind == z3.Z3_OP_UMINUS:
            p = go(ch[0])
            return None if p is None else {d: -v for d, v in p.items()}
        if kind == z3.Z3_OP_MUL:
            out = {0: Fraction(1)}
            for c in ch:
                p = go(c)
                if p is None:
                    return None
                out = mul(out, p)
            return out
        if kind == z3.Z3_OP_DIV:
            a, b = go(ch[0]), go(ch[1])
            if a is None or b is None or set(b) - {0} and any(b[d] for d in b if d):
                return None
            if not b.get(0):
                return None
            return {d: v / b[0] for d, v in a.items()}
        if kind == z3.Z3_OP_POWER:
            a, b = go(ch[0]), go(ch[1])
            if a is None or b is None or set(k for k, v in b.items() if v) - {0}:
                return None
            n = b.get(0, 0)
            if n != int(n) or n < 0:
                return None
            out = {0: Fraction(1)}
            for _ in range(int(n)):
                out = mul(out, a)
            return out
        return None
    return go(z3.simplify(e))


def poly_compose_affine(p, a, b):
    """p(a + b*y) as {degree: Fraction} in y"""
    out = {}
    base = {0: Fraction(1)}
    lin = {0: Fraction(a), 1: Fraction(b)}
    cur = dict(base)
    maxd = max(p) if p else 0
    pw = {0: {0: Fraction(1)}}
    for d in range(1, maxd + 1):
        prev = pw[d - 1]
        nxt = {}
        for i, x in prev.items():
            for j, y in lin.items():
                nxt[i + j] = nxt.get(i + j, 0) + x * y
        pw[d] = nxt
    for d, c in p.items():
        for i, x in pw[d].items():
            out[i] = out.get(i, 0) + c * x
    return out


def poly_term(p, y):
    """Horner z3 term of {degree: Fraction} at z3 term y"""
    acc = z3.RealVal(0)
    for d in range(max(p) if p else 0, -1, -1):
        acc = acc * y + RV(Fraction(p.get(d, 0)))
    return acc


# ---- exact multivariate rational functions -------------------------------------------------------------------------------------
def _pmul(a, b):
    out = {}
    for m1, x in a.items():
        for m2, y in b.items():
            d = dict(m1)
            for v, e in m2:
                d[v] = d.get(v, 0) + e
            k = tuple(sorted(d.items()))
            out[k] = out.get(k, 0) + x * y
    return {k: v for k, v in out.items() if v}


def _padd(a, b, s=1):
    out = dict(a)
    for k, v in b.items():
        out[k] = out.get(k, 0) + s * v
    return {k: v for k, v in out.items() if v}


def ratfun_of(e):
    """Exact (numerator, denominator, vars) of a z3 real term built from +, -, *, /, integer powers, numerals and real constants:
    polynomials are {monomial: Fraction} with monomial = sorted tuple of (var name, exponent).  None for any other structure."""
    memo, names = {}, {}
    ONE = {(): Fraction(1)}

    def go(t):
        k = t.get_id()
        if k not in memo:
            memo[k] = go1(t)
        return memo[k]

    def go1(t):
        if z3.is_rational_value(t):
            return {(): Fraction(t.numerator_as_long(), t.denominator_as_long())} if t.numerator_as_long() else {}, ONE
        if z3.is_int_value(t):
            return ({(): Fraction(t.as_long())} if t.as_long() else {}), ONE
        if z3.is_const(t) and t.decl().kind() == z3.Z3_OP_UNINTERPRETED:
            names[t.decl().name()] = t
            return {((t.decl().name(), 1),): Fraction(1)}, ONE
        kind, ch = t.decl().kind(), t.children()
        if kind == z3.Z3_OP_TO_REAL:
            return go(ch[0])
        ps = [go(c) for c in ch]
        if any(p is None for p in ps):
            return None
        if kind in (z3.Z3_OP_ADD, z3.Z3_OP_SUB):
            n, d = ps[0]
            for pn, pd in ps[1:]:
                s = 1 if kind == z3.Z3_OP_ADD else -1
                if pd == d:
                    n = _padd(n, pn, s)
                else:
                    n, d = _padd(_pmul(n, pd), _pmul(pn, d), s), _pmul(d, pd)
            return n, d
        if kind == z3.Z3_OP_UMINUS:
            return {k: -v for k, v in ps[0][0].items()}, ps[0][1]
        if kind == z3.Z3_OP_MUL:
            n, d = ONE, ONE
            for pn, pd in ps:
                n, d = _pmul(n, pn), _pmul(d, pd)
            return n, d
        if kind == z3.Z3_OP_DIV:
            (an, ad), (bn, bd) = ps
            if not bn:
                return None
            return _pmul(an, bd), _pmul(ad, bn)
        if kind == z3.Z3_OP_POWER:
            (an, ad), (bn, bd) = ps
            if bd != ONE or set(bn) - {()}:
                return None
            ex = bn.get((), Fraction(0))
            if ex.denominator != 1 or ex < 0:
                return None
            n, d = ONE, ONE
            for _ in range(int(ex)):
                n, d = _pmul(n, an), _pmul(d, ad)
            return n, d
        return None
    r = go(z3.simplify(e))
    if r is None:
        return None
    n, d = r
    # scale to integer coefficients (keeps the solver's numerals small) and drop a common monomial/numeric content
    from math import gcd
    def content(p):
        den = 1
        for v in p.values():
            den = den * v.denominator // gcd(den, v.denominator)
        g = 0
        for v in p.values():
            g = gcd(g, int(v * den))
        return Fraction(g or 1, den)
    cn, cd = content(n) if n else Fraction(1), content(d)
    n = {k: v / cn for k, v in n.items()}
    d = {k: v / cd for k, v in d.items()}
    return n, d, cn / cd, names


def ratfun_term(p, names):
    acc = []
    for mono, c in p.items():
        t = RV(Fraction(c))
        for v, e in mono:
            for _ in range(e):
                t = t * names[v]
        acc.append(t)
    return z3.Sum(acc) if acc else z3.RealVal(0)


def positive_ratfun(e):
    """A condition equivalent to e > 0 (wherever e's denominators are non-zero) with all divisions cleared: the solver gets two
    polynomial sign conditions instead of a rational function.  Falls back to e > 0 itself when e is not a rational function."""
    r = ratfun_of(e)
    if r is None:
        return e > 0
    n, d, scale, names = r
    if not n:
        return z3.BoolVal(False)
    N, Dn = ratfun_term(n, names), ratfun_term(d, names)
    if set(d) == {()}:
        return (N > 0) if scale * d[()] > 0 else (N < 0)
    if scale < 0:
        N = -N
    return z3.Or(z3.And(Dn > 0, N > 0), z3.And(Dn < 0, N < 0))
