"""C01 - retained samples keep their absolute timestamps under every crop or slice."""
import itertools
from fractions import Fraction

import astropy.units as u
import numpy as np
import z3

import pulsarbat as pb
from pbsym import core as K
from pbsym.core import SInt
from pbsym.modes import PreconditionFailed, Raised, SigView, qterm, time_term
from pbsym.runner import Unit
from pbsym.stubs import standard_patches
from pbsym.tarr import SymSlice, SymTime

from .common import RV, cneq, compare_signals, iterm, meta_checks, neq, rterm

META = {
    "stubs": ["slice stand-in in pulsarbat.core whose .indices() is the SMT model of CPython's PySlice_AdjustIndices "
              "(builtin slices carrying symbolic ints are converted before the real __getitem__ runs)",
              "len() in pulsarbat modules returns the symbolic length of a T-array",
              "T-arrays: symbolic time length N, concrete sample axes, sample values = uninterpreted functions of the index",
              "astropy Time replaced by exact-real SymTime (isclose(a,b) <=> |a-b| <= eps, eps symbolic with 0 <= eps < dt/4)",
              "prev_fast_len replaced by an uninterpreted F with the contract 0 <= F(N) <= N (proved for the real function in C18)"],
    "bounds": {"N": "0 <= N <= 2^62 (symbolic)", "slice start/stop": "any integer or absent", "step": "1..4 (quick) / 1..8 (thorough)",
               "classes": "all six signal classes with minimal sample shapes", "composition": "two successive slices explicitly; "
               "longer pipelines by induction (the post-state of one step is an arbitrary valid signal)"},
    "assumptions": ["exact real time arithmetic: rounding of astropy Time (two doubles) at MHz-GHz rates is outside the claim",
                    "sample_rate > 0"],
    "outside": ["Time round-off", "negative steps (asserted away by the code)", "Dask data"],
}

CLASSES = {
    "Signal": (pb.Signal, (), np.float64),
    "RadioSignal": (pb.RadioSignal, (2,), np.float32),
    "IntensitySignal": (pb.IntensitySignal, (1,), np.float64),
    "FullStokesSignal": (pb.FullStokesSignal, (1, 4), np.float32),
    "BasebandSignal": (pb.BasebandSignal, (2,), np.complex128),
    "DualPolarizationSignal": (pb.DualPolarizationSignal, (1, 2), np.complex64),
}
NMAX = 2**62


def make_signal(S, clsname, N, with_t0=True, prefix=""):
    cls, sshape, dtype = CLASSES[clsname]
    data = S.tarray(prefix + "z", N, sshape, dtype)
    dt = S.real(prefix + "dt")
    S.assume(dt > Fraction(1, 10**9))
    S.assume(dt < 1000)
    sr = S.quantity(1 / dt, u.Hz)
    t0v = None
    if with_t0:
        t0v = S.real(prefix + "t0")
        S.assume(t0v > -10**6)
        S.assume(t0v < 10**6)
    kw = dict(sample_rate=sr, start_time=S.time(t0v), meta={"k": 1})
    if issubclass(cls, pb.RadioSignal):
        cf = S.real(prefix + "cf")
        S.assume(cf > -10**7)
        S.assume(cf < 10**7)
        kw["center_freq"] = S.quantity(cf, u.Hz)
        kw["freq_align"] = "center"
        if not issubclass(cls, pb.BasebandSignal):
            bw = S.real(prefix + "bw")
            S.assume(bw > Fraction(1, 1000))
            S.assume(bw < 10**7)
            kw["chan_bw"] = S.quantity(bw, u.Hz)
    if cls is pb.DualPolarizationSignal:
        kw["pol_type"] = "circular"
    return cls(data, **kw), dt, t0v


def ref_slice(N, a, b, step):
    """Language-reference normalisation of a slice with positive step: (start, stop, length) as z3 Int terms."""
    def norm(v, default):
        if v is None:
            return default
        v = iterm(v)
        return z3.If(v < 0, z3.If(v + N < 0, z3.IntVal(0), v + N), z3.If(v > N, N, v))
    st = norm(a, z3.IntVal(0))
    sp = norm(b, N)
    L = z3.If(sp > st, (sp - st + (step - 1)) / step, 0)
    return st, sp, L


def slice_checks(S, vin, vo, st, L, step, dt, tag="", fsel=None):
    """spec of one slicing step given reference (st, L, step); fsel = (first channel, count) of a frequency slice"""
    checks = [(tag + "length", vo.length != L)]
    if fsel is None:
        checks += [(tag + n, b) for n, b in meta_checks(S, vin, vo, what=("cls", "cf", "align", "pol_type"))]
    else:
        checks += [(tag + n, b) for n, b in meta_checks(S, vin, vo, what=("cls", "pol_type"))]
        fa, fb = vin.chan_freqs()[fsel[0]:fsel[0] + fsel[1]], vo.chan_freqs()
        if not (issubclass(vin.cls, pb.BasebandSignal) and step > 1 and len(fa) > 1):
            # (a stepped slice of a multi-channel baseband signal changes chan_bw == sample_rate and with it the labels)
            checks.append((tag + "labels", z3.Or([z3.BoolVal(len(fa) != len(fb))] + [neq(S, x, y, 1e-4) for x, y in zip(fa, fb)])))
    checks.append((tag + "dtype", z3.BoolVal(vo.dtype != vin.dtype)))
    checks.append((tag + "meta", z3.BoolVal(vo.meta != vin.meta)))
    checks.append((tag + "sample_rate", neq(S, vo.sr * step, vin.sr, 1e-9)))
    if vin.bw is not None:
        if issubclass(vin.cls, pb.BasebandSignal):
            checks.append((tag + "chan_bw==sample_rate", neq(S, vo.bw, vo.sr, 1e-9)))
        else:
            checks.append((tag + "chan_bw", neq(S, vo.bw, vin.bw, 1e-9)))
    if vin.t0 is None:
        checks.append((tag + "start_time", z3.BoolVal(vo.t0 is not None)))
    elif vo.t0 is None:
        checks.append((tag + "start_time", z3.BoolVal(True)))
    else:
        checks.append((tag + "start_time", z3.And(L > 0, neq(S, vo.t0, vin.t0 + z3.ToReal(st) * dt, 1e-7))))
    return checks


def data_checks(S, vin, vo, st, L, step, tag="", foff=0):
    bad = []
    if foff or vo.sample_shape != vin.sample_shape:
        # frequency-sliced output: channel j of the output is channel j+foff of the input
        class _Shift:
            pass
        base = vin
        vin = _Shift()
        vin.sample_shape = vo.sample_shape
        vin.elem = lambda t, ix, base=base: base.elem(t, (ix[0] + foff,) + tuple(ix[1:]))
    if S.symbolic:
        k = z3.Int("k_skolem")
        for ix in np.ndindex(*vin.sample_shape):
            bad.append(z3.And(k >= 0, k < L, cneq(S, vo.elem(k, ix), vin.elem(st + k * step, ix))))
    else:
        Lc = int(K.evalz(L, S.env, S.ufs))
        stc = int(K.evalz(st, S.env, S.ufs))
        if vo.nlen == Lc:
            for kk in range(min(Lc, 64)):
                for ix in np.ndindex(*vin.sample_shape):
                    bad.append(cneq(S, vo.elem(kk, ix), vin.elem(stc + kk * step, ix)))
    return [(tag + "samples", z3.Or(bad) if bad else z3.BoolVal(False))]


class Slice(Unit):
    functions = ("pulsarbat.core:Signal._time_slice", "pulsarbat.core:Signal.__getitem__", "pulsarbat.core:RadioSignal.__getitem__",
                 "pulsarbat.core:Signal.like", "pulsarbat.core:Signal.__init__", "pulsarbat.core:Signal.stop_time",
                 "pulsarbat.core:Signal.time_length", "pulsarbat.core:Signal.contains", "pulsarbat.core:Signal.dt")
    witnesses = 2

    def __init__(self, clsname, pattern, with_t0=True, smax=4, twice=False, fidx=None):
        self.clsname, self.pattern, self.with_t0, self.smax, self.twice, self.fidx = clsname, pattern, with_t0, smax, twice, fidx
        self.name = f"slice-{clsname}-{pattern}{'' if with_t0 else '-not0'}{'-twice' if twice else ''}" + (f"-f{fidx}" if fidx else "")
        self.bounds = {"class": clsname, "bounds_present(start,stop,step)": pattern, "start_time": with_t0, "step<=": smax,
                       "N<=": "2^62", "two_successive_slices": twice}

    def _idx(self, S, tag):
        a = S.int(tag + "a") if self.pattern[0] == "1" else None
        b = S.int(tag + "b") if self.pattern[1] == "1" else None
        c = S.int(tag + "c", 1, self.smax) if self.pattern[2] == "1" else None
        return a, b, c

    def build(self, S):
        N = S.int("N", 0, NMAX)
        sig, dt, t0v = make_signal(S, self.clsname, N, self.with_t0)
        eps = S.real("eps")
        S.assume(eps >= 0)
        S.assume(eps * 4 < dt)
        S.time_eps(eps)
        idx = [self._idx(S, "")]
        if self.twice:
            idx.append(self._idx(S, "q"))
        return {"sig": sig, "N": N, "dt": dt, "idx": idx}

    def call(self, a):
        sig = a["sig"]
        from pbsym.tarr import TArr
        mk = (lambda x: SymSlice(*x, force=True)) if isinstance(sig.data, TArr) else (lambda x: slice(*x))
        outs = []
        cur = sig
        for j, t in enumerate(a["idx"]):
            if self.fidx and j == 0:
                nch = CLASSES[self.clsname][1][0]
                cur = cur[mk(t), (slice(None) if self.fidx == "full" else slice(nch - 1, nch))]
            else:
                cur = cur[mk(t)]
            outs.append(cur)
        out = outs[-1]
        r = {"outs": outs, "stop": out.stop_time, "tl": out.time_length, "len": out.shape[0]}
        return r

    def spec(self, S, a, out):
        if isinstance(out, Raised):
            return [("no-exception", z3.BoolVal(True))]
        N = iterm(a["N"])
        dt = rterm(a["dt"])
        vin = SigView(a["sig"])
        checks = []
        cur_v, cur_N, cur_dt = vin, N, dt
        for j, (t, o) in enumerate(zip(a["idx"], out["outs"])):
            step = 1 if t[2] is None else S.concretize(iterm(t[2]))
            st, sp, L = ref_slice(cur_N, t[0], t[1], step)
            vo = SigView(o)
            tag = f"s{j}:" if self.twice else ""
            fsel = None
            if self.fidx and j == 0:
                nch = CLASSES[self.clsname][1][0]
                fsel = (0, nch) if self.fidx == "full" else (nch - 1, 1)
            checks += slice_checks(S, cur_v, vo, st, L, step, cur_dt, tag, fsel=fsel)
            checks += data_checks(S, cur_v, vo, st, L, step, tag, foff=(fsel[0] if fsel else 0))
            cur_v, cur_N, cur_dt = vo, L, cur_dt * step
        vo = cur_v
        L = cur_N
        # derived time attributes of the final result
        if vo.t0 is None:
            checks.append(("stop_time", z3.BoolVal(out["stop"] is not None)))
        else:
            t1 = time_term(out["stop"])
            checks.append(("stop_time", neq(S, t1, vo.t0 + z3.ToReal(L) * cur_dt, 1e-7)))
        checks.append(("time_length", neq(S, qterm(out["tl"], u.s), z3.ToReal(L) * cur_dt, 1e-7)))
        checks.append(("len", iterm(out["len"]) != L))
        return checks

    def witness_constraints(self, ctx):
        return [ctx.inputs["N"] <= 24] + [z3.And(c <= 40, c >= -40) for n, c in ctx.inputs.items() if n in ("a", "b", "qa", "qb")]

    def compare(self, S, args, out, CS, cargs, cout):
        if isinstance(out, Raised) or isinstance(cout, Raised):
            return compare_signals(S, out, CS, cout)
        return compare_signals(S, out["outs"][-1], CS, cout["outs"][-1], rtol=1e-9, time_tol=1e-7)

    def signature(self, label, values, detail):
        return f"slice:{label}"


class Contains(Unit):
    """time membership agrees with the half-open interval [start_time, stop_time) (concrete sample rates)."""
    functions = ("pulsarbat.core:Signal.contains", "pulsarbat.core:Signal.stop_time", "pulsarbat.core:Signal.time_length",
                 "pulsarbat.core:Signal.__contains__")
    witnesses = 2
    RATES = {"mHz": (1 * u.mHz, Fraction(1000)), "3Hz": (3 * u.Hz, Fraction(1, 3)), "kHz": (2.5 * u.kHz, Fraction(1, 2500)),
             "MHz": (400 * u.MHz, Fraction(1, 400 * 10**6)), "GHz": (1.6 * u.GHz, Fraction(1, 16 * 10**8))}

    def __init__(self, clsname, rate, with_t0=True):
        self.clsname, self.rate, self.with_t0 = clsname, rate, with_t0
        self.name = f"contains-{clsname}-{rate}{'' if with_t0 else '-not0'}"
        self.bounds = {"class": clsname, "sample_rate": str(self.RATES[rate][0]), "N<=": "2^40", "start_time": with_t0}

    def build(self, S):
        N = S.int("N", 0, 2**40)
        cls, sshape, dtype = CLASSES[self.clsname]
        data = S.tarray("z", N, sshape, dtype)
        sr, dt = self.RATES[self.rate]
        t0v = None
        if self.with_t0:
            t0v = S.real("t0")
            S.assume(t0v > -10**6)
            S.assume(t0v < 10**6)
        kw = dict(sample_rate=sr, start_time=S.time(t0v))
        if issubclass(cls, pb.RadioSignal):
            kw.update(center_freq=1 * u.GHz)
            if not issubclass(cls, pb.BasebandSignal):
                kw["chan_bw"] = 1 * u.MHz
        if cls is pb.DualPolarizationSignal:
            kw["pol_type"] = "linear"
        sig = cls(data, **kw)
        eps = S.real("eps")
        S.assume(eps >= 0)
        S.assume(eps * 4 < dt)
        S.time_eps(eps)
        tq = S.real("tq")
        S.assume(tq > -2 * 10**6)
        S.assume(tq < 2 * 10**6)
        return {"sig": sig, "N": N, "dt": dt, "tq": tq, "t0": t0v}

    def call(self, a):
        from pbsym.modes import EPOCH
        sig = a["sig"]
        tq = a["tq"]
        tt = (EPOCH + tq * u.s) if isinstance(tq, float) else SymTime(tq)
        r = {"stop": sig.stop_time, "tl": sig.time_length, "c": sig.contains(tt), "in": (tt in sig)}
        if sig.start_time is not None:
            r["c0"] = sig.contains(sig.start_time)
            r["c1"] = sig.contains(sig.stop_time)
        return r

    def spec(self, S, a, out):
        if isinstance(out, Raised):
            return [("no-exception", z3.BoolVal(True))]
        N = iterm(a["N"])
        dt = RV(a["dt"])

        def b(x):
            return x.e if hasattr(x, "e") else z3.BoolVal(bool(x))
        checks = [("time_length", neq(S, qterm(out["tl"], u.s), z3.ToReal(N) * dt, 1e-6))]
        if a["t0"] is None:
            checks.append(("stop_time-without-start", z3.BoolVal(out["stop"] is not None)))
            checks.append(("contains-without-start", z3.Or(b(out["c"]), b(out["in"]))))
            return checks
        t0 = rterm(a["t0"]) if S.symbolic else time_term(a["sig"].start_time)
        t1 = time_term(out["stop"])
        checks.append(("stop_time", neq(S, t1, t0 + z3.ToReal(N) * dt, 1e-6)))
        tq = rterm(a["tq"])
        e = SymTime.EPS if S.symbolic else RV(Fraction(1, 10**7))
        near = z3.Or(z3.And(tq - t0 <= e, t0 - tq <= e), z3.And(tq - t1 <= e, t1 - tq <= e))
        inside = z3.And(t0 <= tq, tq < t0 + z3.ToReal(N) * dt)
        checks.append(("contains", z3.And(z3.Not(near), b(out["c"]) != inside)))
        checks.append(("in-operator", b(out["in"]) != b(out["c"])))
        # the interval is half-open: nothing before start_time is a member (the closeness test only protects the stop edge), and an
        # empty signal (N = 0) contains no time at all, not even its own start_time
        checks.append(("contains-before-start", z3.And(tq < t0 - (RV(0) if S.symbolic else RV(Fraction(1, 10**9))), b(out["c"]))))
        checks.append(("contains-start-of-empty-signal", z3.And(N == 0, b(out["c0"]))))
        checks.append(("contains-start", z3.And(N > 0, z3.Not(b(out["c0"])))))
        checks.append(("contains-stop", z3.And(N > 0, b(out["c1"]))))
        return checks

    def witness_constraints(self, ctx):
        return [ctx.inputs["N"] <= 24]

    def signature(self, label, values, detail):
        return f"contains:{label}"


class FastLenCrop(Unit):
    """fast_len(z) == z[:F(N)] with start_time and sample_rate untouched, for any F with 0 <= F(N) <= N."""
    functions = ("pulsarbat.transforms.transforms:fast_len", "pulsarbat.core:Signal._time_slice", "pulsarbat.core:Signal.__getitem__")
    witnesses = 1
    budget_s = 120

    def __init__(self, clsname, with_t0=True):
        self.clsname, self.with_t0 = clsname, with_t0
        self.name = f"fast_len-{clsname}{'' if with_t0 else '-not0'}"
        self.bounds = {"class": clsname, "N<=": "2^62", "prev_fast_len": "uninterpreted, 0 <= F(N) <= N"}

    def patches(self):
        import pulsarbat.utils as U
        p = standard_patches()
        unit = self

        def prev_stub(N):
            if isinstance(N, SInt):
                # F(len(z)): only the call with the signal's own length gets the unconstrained value; any other argument gets a
                # different unconstrained value of its own (so a rewritten call such as 2*F(len//2) cannot pass by accident)
                from pbsym.core import Ctx
                ctx = Ctx.cur
                if ctx._check(N.e != iterm(unit._N))[0] == "unsat":
                    return unit._F
                unit._others = getattr(unit, "_others", 0) + 1
                g = ctx.int(f"F_other{unit._others}", 0, NMAX)
                ctx.assume(g.e <= N.e)
                return g
            return unit._real_prev(N)
        self._real_prev = U.prev_fast_len
        p.append((U, "prev_fast_len", prev_stub))
        return p

    def build(self, S):
        N = S.int("N", 0, NMAX)
        F = S.int("F", 0, NMAX)
        if S.symbolic:
            S.assume(iterm(F) <= iterm(N))
            self._F, self._N, self._others = F, N, 0
        else:
            # concrete runs use the real prev_fast_len (decided for every N by C18): the value of F in a model is irrelevant
            F = pb.utils.prev_fast_len(int(N))
        sig, dt, t0v = make_signal(S, self.clsname, N, self.with_t0)
        return {"sig": sig, "N": N, "F": F, "dt": dt}

    def hunt_candidates(self, ctx):
        # lengths just above an odd 7-smooth number, a power of two, a prime: where a rewritten call of prev_fast_len differs
        return [{"N": n} for n in (1, 3, 7, 9, 11, 15, 26, 27, 49, 65, 81, 127, 129, 245, 4375, 4409, 6561, 16807, 2**20 + 1, 3**20 + 5)]

    def call(self, a):
        return pb.fast_len(a["sig"])

    def spec(self, S, a, out):
        if isinstance(out, Raised):
            return [("no-exception", z3.BoolVal(True))]
        vin, vo = SigView(a["sig"]), SigView(out)
        F = iterm(a["F"])
        dt = rterm(a["dt"])
        checks = slice_checks(S, vin, vo, z3.IntVal(0), F, 1, dt)
        checks += data_checks(S, vin, vo, z3.IntVal(0), F, 1)
        if vin.t0 is not None and vo.t0 is not None:
            checks.append(("start_time-unchanged", neq(S, vo.t0, vin.t0, 1e-9)))
        return checks

    def witness_constraints(self, ctx):
        N, F = ctx.inputs["N"], ctx.inputs["F"]
        T = [1, 2, 3, 4, 5, 6, 7, 8, 9, 10, 12, 14, 15, 16, 18, 20, 21, 24, 25, 27, 28, 30, 32, 35, 36]
        return [N <= 36, N >= 11, z3.Or([z3.And(F == t, N >= t, N < (T[i + 1] if i + 1 < len(T) else 37)) for i, t in enumerate(T)])]

    def compare(self, S, args, out, CS, cargs, cout):
        return compare_signals(S, out, CS, cout, rtol=1e-9, time_tol=1e-7)

    def signature(self, label, values, detail):
        return f"fast_len:{label}"


def units(tier):
    us = []
    smax = 4 if tier == "quick" else 8
    pats = ["".join(p) for p in itertools.product("01", repeat=3)]
    classes = list(CLASSES)
    for i, cn in enumerate(classes):
        for j, p in enumerate(pats):
            if tier == "quick" and cn not in ("Signal", "BasebandSignal") and p not in ("111", "110", "011"):
                continue
            us.append(Slice(cn, p, with_t0=True, smax=smax))
        us.append(Slice(cn, "111", with_t0=False, smax=smax))
    for cn in (("Signal", "BasebandSignal") if tier == "quick" else classes):
        us.append(Slice(cn, "111", with_t0=True, smax=3, twice=True))
        us.append(Slice(cn, "101", with_t0=True, smax=3, twice=True))
    for cn in classes[1:]:
        us.append(Slice(cn, "111", with_t0=True, smax=smax, fidx="full"))
        us.append(Slice(cn, "101", with_t0=(cn != "IntensitySignal"), smax=smax, fidx="last"))
        if tier != "quick":
            us.append(Slice(cn, "011", with_t0=True, smax=3, twice=True, fidx="last"))
    for cn in classes:
        us.append(FastLenCrop(cn, with_t0=(cn != "RadioSignal")))
    rates = list(Contains.RATES)
    for i, cn in enumerate(classes):
        for j, r in enumerate(rates):
            if tier == "quick" and (i + j) % 3:
                continue
            us.append(Contains(cn, r))
    us.append(Contains("Signal", "kHz", with_t0=False))
    us.append(Contains("DualPolarizationSignal", "MHz", with_t0=False))
    # cropped time shifts (FFT-based crop: the units live in C03's harness; here for their start_time / length clauses):
    # crop=True drops ceil(max shift) leading and ceil(-min shift) trailing samples and advances start_time by the samples dropped
    from .C03 import FracShift, IntShift
    us += [IntShift(2, (2,), (2,), cplx=True, crop=True), FracShift(2, (), (), cplx=False, crop=True), FracShift(2, (2,), (2,), cplx=True, crop=True)]
    if tier != "quick":
        us += [IntShift(4, (2,), (), cplx=False, crop=True), FracShift(4, (), (), cplx=True, crop=True)]
    # whole-sample snippets (the units live in C12's harness): n samples from sample t on, timestamps of the retained samples kept,
    # also for n = 0
    from .C12 import Whole
    us += [Whole("Signal", "count"), Whole("RadioSignal", "duration", rate="kHz")]
    return us
