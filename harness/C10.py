"""C10 - concatenate is the exact inverse of splitting and refuses non-contiguous pieces."""
import itertools
from fractions import Fraction

import astropy.units as u
import numpy as np
import z3

import pulsarbat as pb
from pbsym import core as K
from pbsym.modes import EPOCH, Raised, SigView, qterms
from pbsym.runner import Unit
from pbsym.tarr import SymSlice, SymTime, TArr

from .C01 import NMAX, data_checks
from .common import RV, cneq, compare_signals, iterm, meta_checks, neq, rterm

META = {
    "stubs": ["as C01 (slice stand-in, symbolic len, T-arrays with np.concatenate/np.stack through __array_function__, SymTime)",
              "u.isclose/u.allclose on symbolic Quantities: exact |a-b| <= 1e-5*|b| (astropy defaults: rtol 1e-5, atol 0)",
              "Time.isclose(a,b): |a-b| <= eps with eps symbolic, 0 <= eps < dt/4"],
    "bounds": {"N": "0 <= N <= 2^40 symbolic", "pieces": "2..3 quick, ..4 thorough; cut points symbolic (repeated/end points allowed)",
               "missing start times": "every pattern", "channels": "1..4 with every alignment and channel cut",
               "sample rates": "concrete 3 Hz / 2.5 kHz / 400 MHz (contiguity decisions stay linear)"},
    "assumptions": ["exact real time arithmetic (Time rounding outside the claim)"],
    "outside": ["contiguity decisions within Time rounding at kHz-GHz rates", "Dask data", "more than 4 pieces"],
}

RATES = {"3Hz": (3 * u.Hz, Fraction(1, 3)), "kHz": (2.5 * u.kHz, Fraction(1, 2500)), "MHz": (400 * u.MHz, Fraction(1, 400 * 10**6))}
SIGS = {
    "Signal": (pb.Signal, (), np.float64),
    "RadioSignal": (pb.RadioSignal, (3,), np.float64),
    "BasebandSignal": (pb.BasebandSignal, (2,), np.complex128),
    "DualPolarizationSignal": (pb.DualPolarizationSignal, (2, 2), np.complex64),
    "FullStokesSignal": (pb.FullStokesSignal, (4, 4), np.float32),
}


class _SubSignal(pb.Signal):
    """a different signal type with the same constructor (for the type-mix rejection)"""


def mk_sig(S, clsname, N, rate, align="center", with_t0=True, nchan=None):
    cls, sshape, dtype = SIGS[clsname]
    if nchan is not None and sshape:
        sshape = (nchan,) + sshape[1:]
    data = S.tarray("z", N, sshape, dtype)
    sr, dt = RATES[rate]
    t0v = None
    if with_t0:
        t0v = S.real("t0")
        S.assume(t0v > -10**6)
        S.assume(t0v < 10**6)
    kw = dict(sample_rate=sr, start_time=S.time(t0v), meta={"m": 2})
    if issubclass(cls, pb.RadioSignal):
        cf = S.real("cf")
        S.assume(cf > 10**3)
        S.assume(cf < 10**10)
        kw["center_freq"] = S.quantity(cf, u.Hz)
        kw["freq_align"] = align
        if not issubclass(cls, pb.BasebandSignal):
            bw = S.real("bw")
            S.assume(bw > Fraction(1, 100))
            S.assume(bw < 10**7)
            kw["chan_bw"] = S.quantity(bw, u.Hz)
    if cls is pb.DualPolarizationSignal:
        kw["pol_type"] = "circular"
    eps = S.real("eps")
    S.assume(eps >= 0)
    S.assume(eps * 4 < dt)
    S.time_eps(eps)
    return cls(data, **kw), dt, t0v


def _wc(ctx, nmax):
    """witness models: small N; band well away from 0 Hz (with a label within rounding of 0 Hz the rtol-only
    comparisons of channel labels in the real code are decided by float round-off, which exact arithmetic cannot see)"""
    i = ctx.inputs
    c = [i["N"] <= nmax]
    if "cf" in i:
        c += [i["cf"] >= 10**6, i["cf"] <= 10**7]
    if "bw" in i:
        c += [i["bw"] >= 10**3, i["bw"] <= 10**5]
    return c


def tslice(sig, a, b):
    return sig[SymSlice(a, b, None, force=True)] if isinstance(sig.data, TArr) else sig[int(a):int(b)]


def same_signal(S, vin, vo, N, label=""):
    checks = [(label + "length", vo.length != N)]
    checks += [(label + n, b) for n, b in meta_checks(S, vin, vo, what=("cls", "sr", "t0", "bw", "pol_type"), tol_t=1e-6)]
    checks.append((label + "dtype", z3.BoolVal(vo.dtype != vin.dtype)))
    if vin.cf is not None:
        fa, fb = vin.chan_freqs(), vo.chan_freqs()
        checks.append((label + "labels", z3.Or([z3.BoolVal(len(fa) != len(fb))] + [neq(S, x, y, 1e-4) for x, y in zip(fa, fb)])))
    checks += [(label + n, b) for n, b in data_checks(S, vin, vo, z3.IntVal(0), N, 1)]
    return checks


class TimeSplit(Unit):
    functions = ("pulsarbat.transforms.transforms:concatenate", "pulsarbat.core:Signal.__getitem__", "pulsarbat.core:Signal._time_slice",
                 "pulsarbat.core:RadioSignal.__getitem__", "pulsarbat.core:RadioSignal.channel_freqs", "pulsarbat.core:Signal.like")
    witnesses = 2

    def __init__(self, clsname, m, drop, rate, align="center", axis=0, grouping="flat"):
        self.clsname, self.m, self.drop, self.rate, self.align, self.axis, self.grouping = clsname, m, drop, rate, align, axis, grouping
        self.name = f"tsplit-{clsname}-m{m}-drop{''.join(map(str, drop)) or '0'}-{rate}-{align}-ax{axis}-{grouping}"
        self.bounds = {"class": clsname, "pieces": m, "pieces_without_start_time": list(drop), "sample_rate": str(RATES[rate][0]),
                       "freq_align": align, "axis": axis, "grouping": grouping, "N<=": "2^40"}

    def build(self, S):
        N = S.int("N", 0, 2**40)
        with_t0 = len(self.drop) < self.m or True
        sig, dt, t0v = mk_sig(S, self.clsname, N, self.rate, self.align, with_t0=(self.drop != tuple(range(self.m)) or True))
        cuts = [S.int(f"p{i}", 0, 2**40) for i in range(1, self.m)]
        prev = 0
        for c in cuts:
            S.assume(iterm(c) >= iterm(prev))
            prev = c
        S.assume(iterm(prev) <= iterm(N))
        return {"sig": sig, "N": N, "cuts": cuts, "dt": dt}

    def call(self, a):
        sig = a["sig"]
        edges = [0] + list(a["cuts"]) + [a["N"]]
        pieces = [tslice(sig, x, y) for x, y in zip(edges, edges[1:])]
        for i in self.drop:
            pieces[i] = type(sig).like(pieces[i], start_time=None)
        ax = self.axis
        if self.grouping == "flat":
            return pb.concatenate(pieces, axis=ax)
        if self.grouping == "left":
            return pb.concatenate([pb.concatenate(pieces[:2], axis=ax)] + pieces[2:], axis=ax)
        return pb.concatenate(pieces[:-2] + [pb.concatenate(pieces[-2:], axis=ax)], axis=ax)

    def spec(self, S, a, out):
        if isinstance(out, Raised):
            return [("no-exception", z3.BoolVal(True))]
        vin, vo = SigView(a["sig"]), SigView(out)
        N = iterm(a["N"])
        checks = same_signal(S, vin, vo, N)
        if len(self.drop) == self.m:
            checks = [c for c in checks if c[0] != "start_time"] + [("start_time", z3.BoolVal(vo.t0 is not None))]
        else:
            # start time is recovered from the first piece that has one: t0 exactly
            pass
        return checks

    def witness_constraints(self, ctx):
        return _wc(ctx, 20)

    def compare(self, S, args, out, CS, cargs, cout):
        return compare_signals(S, out, CS, cout, rtol=1e-9, time_tol=1e-6)

    def signature(self, label, values, detail):
        return f"concatenate:time:{label}"


class Reject(Unit):
    """perturbed inputs must be refused on every path"""
    functions = ("pulsarbat.transforms.transforms:concatenate",)
    witnesses = 1

    def __init__(self, clsname, kind, rate="kHz", which=1, axis=0, nchan=None):
        self.clsname, self.kind, self.rate, self.which, self.axis, self.nchan = clsname, kind, rate, which, axis, nchan
        self.name = f"reject-{clsname}-{kind}-{rate}-w{which}-ax{axis}" + (f"-nchan{nchan}" if nchan else "")
        self.bounds = {"class": clsname, "perturbation": kind, "sample_rate": str(RATES[rate][0]), "piece": which, "axis": axis,
                       "nchan": nchan or "class default"}

    def build(self, S):
        N = S.int("N", 0, 2**40)
        sig, dt, t0v = mk_sig(S, self.clsname, N, self.rate, nchan=self.nchan)
        p1 = S.int("p1", 0, 2**40)
        p2 = S.int("p2", 0, 2**40)
        S.assume(iterm(p1) <= iterm(p2))
        S.assume(iterm(p2) <= iterm(N))
        d = S.real("delta")
        return {"sig": sig, "N": N, "cuts": [p1, p2], "dt": dt, "d": d, "S": S}

    def call(self, a):
        sig, S, d = a["sig"], a["S"], a["d"]
        dt = a["dt"]
        cls = type(sig)
        edges = [0] + list(a["cuts"]) + [a["N"]]
        pieces = [tslice(sig, x, y) for x, y in zip(edges, edges[1:])]
        w = self.which
        k = self.kind
        sym = S.symbolic
        if k == "t0-shift":
            S.assume(z3.Or(rterm(d) >= RV(dt), -rterm(d) >= RV(dt)))
            S.assume(z3.And(rterm(d) < 10**6, rterm(d) > -10**6))
            st = pieces[w].start_time
            pieces[w] = cls.like(pieces[w], start_time=st + S.quantity(d, u.s))
        elif k == "t0-shift-after-missing":
            # an earlier piece has a start time, the next one has none, the one after it starts a sample or more off
            S.assume(z3.Or(rterm(d) >= RV(dt), -rterm(d) >= RV(dt)))
            S.assume(z3.And(rterm(d) < 10**6, rterm(d) > -10**6))
            st = pieces[2].start_time
            pieces[1] = cls.like(pieces[1], start_time=None)
            pieces[2] = cls.like(pieces[2], start_time=st + S.quantity(d, u.s))
        elif k == "swap":
            S.assume(iterm(a["cuts"][0]) > 0)
            S.assume(iterm(a["cuts"][1]) > iterm(a["cuts"][0]))
            pieces[0], pieces[1] = pieces[1], pieces[0]
        elif k == "sample_rate":
            S.assume(z3.Or(rterm(d) > RV(Fraction(3, 10**5)), rterm(d) < -RV(Fraction(3, 10**5))))
            S.assume(z3.And(rterm(d) < Fraction(1, 2), rterm(d) > -Fraction(1, 2)))
            base = RATES[self.rate][0]
            newsr = S.quantity((1 + d) * float(base.value), base.unit)
            pieces[w] = cls.like(pieces[w], sample_rate=newsr)
        elif k == "chan_bw":
            S.assume(z3.Or(rterm(d) > RV(Fraction(3, 10**5)), rterm(d) < -RV(Fraction(3, 10**5))))
            S.assume(z3.And(rterm(d) < Fraction(1, 2), rterm(d) > -Fraction(1, 2)))
            pieces[w] = cls.like(pieces[w], chan_bw=pieces[w].chan_bw * (1 + d))
        elif k == "type":
            other = pb.IntensitySignal if cls is pb.RadioSignal else (pb.Signal if cls is not pb.Signal else _SubSignal)
            pieces[w] = other.like(pieces[w])
        elif k == "labels":          # joining along a non-frequency axis with channel labels off by at least one channel
            from pbsym.modes import qterm
            bwt = qterm(sig.chan_bw, u.Hz)
            S.assume(z3.Or(rterm(d) >= bwt, -rterm(d) >= bwt))
            S.assume(z3.And(rterm(d) < 10**8, rterm(d) > -10**8))
            pieces[w] = cls.like(pieces[w], center_freq=pieces[w].center_freq + S.quantity(d, u.Hz))
        elif k == "t0-other-axis":   # joining along a sample axis with different start times
            S.assume(z3.Or(rterm(d) >= RV(dt), -rterm(d) >= RV(dt)))
            S.assume(z3.And(rterm(d) < 10**6, rterm(d) > -10**6))
            pieces = [sig, cls.like(sig, start_time=sig.start_time + S.quantity(d, u.s))]
        elif k == "empty-list":
            pieces = []
        return pb.concatenate(pieces, axis=self.axis)

    def spec(self, S, a, out):
        want = TypeError if self.kind == "type" else ValueError
        if isinstance(out, Raised):
            return [("exception-type", z3.BoolVal(out.cls is not want))]
        return [("must-be-refused", z3.BoolVal(True))]

    def witness_constraints(self, ctx):
        return _wc(ctx, 20)

    def compare(self, S, args, out, CS, cargs, cout):
        return compare_signals(S, out, CS, cout)

    def signature(self, label, values, detail):
        return f"concatenate:reject:{self.kind}:{label}"


class FreqSplit(Unit):
    """split along frequency at every channel cut and join again; gaps/overlaps are refused"""
    functions = ("pulsarbat.transforms.transforms:concatenate", "pulsarbat.core:RadioSignal._freq_slice",
                 "pulsarbat.core:RadioSignal.__getitem__", "pulsarbat.core:RadioSignal.channel_freqs")
    witnesses = 1

    def __init__(self, clsname, nchan, cuts, align, rate="kHz", mode="ok", axis="freq", not0=()):
        self.clsname, self.nchan, self.cuts, self.align, self.rate, self.mode, self.axis = clsname, nchan, tuple(cuts), align, rate, mode, axis
        self.not0 = tuple(not0)            # pieces handed over without a start time
        self.name = f"fsplit-{clsname}-n{nchan}-c{'_'.join(map(str, cuts))}-{align}-{mode}-{axis}" + \
                    (f"-not0_{'_'.join(map(str, not0))}" if not0 else "")
        self.bounds = {"class": clsname, "nchan": nchan, "cuts": list(cuts), "freq_align": align, "mode": mode, "axis": str(axis),
                       "pieces_without_start_time": list(not0)}

    def build(self, S):
        N = S.int("N", 0, 2**40)
        sig, dt, t0v = mk_sig(S, self.clsname, N, self.rate, self.align, nchan=self.nchan)
        d = None
        if self.mode == "t0-differs":
            d = S.real("delta")
            S.assume(z3.Or(rterm(d) >= RV(dt), -rterm(d) >= RV(dt)))
            S.assume(z3.And(rterm(d) < 10**6, rterm(d) > -10**6))
        return {"sig": sig, "N": N, "d": d, "S": S}

    def call(self, a):
        sig = a["sig"]
        edges = [0] + list(self.cuts) + [self.nchan]
        tsl = SymSlice(None, None, None, force=True) if isinstance(sig.data, TArr) else slice(None)
        pieces = [sig[tsl, x:y] for x, y in zip(edges, edges[1:])]
        if self.mode == "gap":        # drop a middle piece -> gap of >= 1 channel
            del pieces[1]
        elif self.mode == "overlap":
            pieces = [sig[tsl, edges[0]:edges[1] + 1]] + pieces[1:]
        elif self.mode == "order":
            pieces = pieces[::-1]
        elif self.mode == "inner-dup":      # end pieces right, an inner piece replaced by a copy of its neighbour (total span unchanged)
            pieces = [pieces[0], pieces[0]] + pieces[2:]
        elif self.mode == "inner-swap":     # two inner pieces exchanged (first and last labels and the channel count unchanged)
            pieces = [pieces[0], pieces[2], pieces[1]] + pieces[3:]
        elif self.mode == "t0-differs":     # contiguous in frequency, but the last piece starts a sample or more off
            last = pieces[-1]
            pieces[-1] = type(last).like(last, start_time=last.start_time + a["S"].quantity(a["d"], u.s))
        for i in self.not0:
            pieces[i] = type(pieces[i]).like(pieces[i], start_time=None)
        return pb.concatenate(pieces, axis=self.axis)

    def spec(self, S, a, out):
        if self.mode != "ok":
            if isinstance(out, Raised):
                return [("exception-type", z3.BoolVal(out.cls is not ValueError))]
            return [("must-be-refused", z3.BoolVal(True))]
        if isinstance(out, Raised):
            return [("no-exception", z3.BoolVal(True))]
        vin, vo = SigView(a["sig"]), SigView(out)
        return same_signal(S, vin, vo, iterm(a["N"]))

    def witness_constraints(self, ctx):
        return _wc(ctx, 12)

    def compare(self, S, args, out, CS, cargs, cout):
        return compare_signals(S, out, CS, cout, rtol=1e-9, time_tol=1e-6)

    def signature(self, label, values, detail):
        return f"concatenate:freq:{self.mode}:{label}"


def units(tier):
    us = []
    rates = itertools.cycle(RATES)
    aligns = itertools.cycle(["center", "bottom", "top"])
    ms = (2, 3) if tier == "quick" else (2, 3, 4)
    for cn in SIGS:
        for m in ms:
            drops = [()] + [c for r in range(1, m + 1) for c in itertools.combinations(range(m), r)]
            for d in drops:
                if tier == "quick" and cn not in ("Signal", "BasebandSignal") and d not in ((), (0,), tuple(range(m))):
                    continue
                if m == 4 and len(d) not in (0, 1, 4) and cn != "Signal":
                    continue
                for ax in ((0,) if (tier == "quick" and d) else (0, "time")):
                    us.append(TimeSplit(cn, m, d, next(rates), next(aligns), axis=ax))
        us.append(TimeSplit(cn, 3, (), next(rates), next(aligns), grouping="left"))
        us.append(TimeSplit(cn, 3, (1,), next(rates), next(aligns), grouping="right"))
    for cn in ("Signal", "RadioSignal", "DualPolarizationSignal"):
        for w in (0, 1, 2):
            us.append(Reject(cn, "t0-shift", next(rates), which=w))
            us.append(Reject(cn, "sample_rate", next(rates), which=w))
        us.append(Reject(cn, "swap", next(rates)))
        us.append(Reject(cn, "type", next(rates)))
    us.append(Reject("Signal", "empty-list"))
    us.append(Reject("RadioSignal", "chan_bw", which=1))
    us.append(Reject("RadioSignal", "chan_bw", which=2, nchan=1))          # (one channel: the labels alone cannot tell)
    us.append(Reject("IntensitySignal" if "IntensitySignal" in SIGS else "RadioSignal", "chan_bw", which=0, nchan=1))
    for cn in ("Signal", "RadioSignal", "DualPolarizationSignal"):
        us.append(Reject(cn, "t0-shift-after-missing", next(rates)))
    us.append(Reject("FullStokesSignal", "chan_bw", which=2))
    us.append(Reject("RadioSignal", "labels", which=1))
    us.append(Reject("FullStokesSignal", "labels", which=0, axis=0))
    us.append(Reject("DualPolarizationSignal", "t0-other-axis", axis=2))
    # (start times that disagree on a FREQUENCY join: FreqSplit mode "t0-differs" below - two copies of one signal are not
    #  contiguous in frequency and would be refused for that reason alone)
    for cn in ("RadioSignal", "BasebandSignal", "DualPolarizationSignal", "FullStokesSignal"):
        for nchan in ((2, 3, 4) if tier == "quick" else (2, 3, 4, 5, 6)):
            for al in ("center", "bottom", "top"):
                for c in range(1, nchan):
                    if tier == "quick" and cn not in ("RadioSignal", "BasebandSignal") and (c != 1 or al == "center"):
                        continue
                    us.append(FreqSplit(cn, nchan, (c,), al, next(rates), axis=("freq", 1)[c % 2]))
            if nchan == 2:
                us.append(FreqSplit(cn, 2, (1,), "bottom", next(rates), mode="order"))
                us.append(FreqSplit(cn, 2, (1,), "center", next(rates), mode="order", axis=1))
            if nchan >= 3:
                us.append(FreqSplit(cn, nchan, (1, 2), "bottom", next(rates), mode="ok"))
                us.append(FreqSplit(cn, nchan, (1, 2), "top", next(rates), mode="gap"))
                us.append(FreqSplit(cn, nchan, (1,), "center", next(rates), mode="overlap"))
                us.append(FreqSplit(cn, nchan, (2,), "bottom", next(rates), mode="order"))
                us.append(FreqSplit(cn, nchan, (1, 2), "center", next(rates), mode="inner-dup", axis=("freq", 1)[nchan % 2]))
            if nchan >= 4:
                us.append(FreqSplit(cn, nchan, (1, 2, 3), "top", next(rates), mode="inner-swap"))
            if nchan == 3:
                # pieces without a start time (the result takes it from the pieces that have one), and start times that disagree
                us.append(FreqSplit(cn, 3, (1, 2), "center", next(rates), mode="ok", not0=(0,)))
                us.append(FreqSplit(cn, 3, (1, 2), "bottom", next(rates), mode="ok", not0=(1, 2), axis=1))
                us.append(FreqSplit(cn, 3, (1, 2), "top", next(rates), mode="t0-differs"))
                us.append(FreqSplit(cn, 3, (1, 2), "center", next(rates), mode="t0-differs", not0=(0,), axis=1))
    return us
