"""CrossHair contracts for pulsarbat.utils.next_fast_len / prev_fast_len (second, independent symbolic executor; run by harness/C18.py)."""
import os

from pulsarbat.utils import next_fast_len, prev_fast_len

MAXN = int(os.environ.get("PBSYM_FASTLEN_MAXN", "300"))


def smooth(n: int) -> bool:
    if n <= 0:
        return n == 0
    for p in (2, 3, 5, 7):
        while n % p == 0:
            n //= p
    return n == 1


def next_ok(n: int) -> bool:
    """
    pre: 0 <= n <= MAXN
    post: __return__
    """
    g = next_fast_len.__wrapped__(n)
    if g < n or not smooth(g):
        return False
    for m in range(n, g):
        if smooth(m):
            return False
    return True


def prev_ok(n: int) -> bool:
    """
    pre: 0 <= n <= MAXN
    post: __return__
    """
    g = prev_fast_len.__wrapped__(n)
    if g > n or not smooth(g):
        return False
    for m in range(g + 1, n + 1):
        if smooth(m):
            return False
    return True
