"""C14 - no operation modifies the signal or arguments it is given."""
import copy
from fractions import Fraction

import astropy.units as u
from astropy.time import Time
import numpy as np
import z3

import pulsarbat as pb
from pbsym import core as K
from pbsym.core import SBool, SComplex, SInt, SNum, SReal
from pbsym.modes import Raised, cterm, qterm, qterms, term_of_number, time_term
from pbsym.runner import Unit
from pbsym.stubs import standard_patches
from pbsym.symnd import SymND, plain

from .C05 import StubDM
from .common import RV, neq, rterm

META = {
    "stubs": ["E-arrays are real NumPy object arrays: views, strides and aliasing are NumPy's own, so an in-place write through a view of "
              "the input replaces elements of the input buffer and is seen by the snapshot comparison",
              "exact DFT, np proxy, SymTime, object Quantities as in C03; DM.sample_delay stubbed by free reals in the dedispersion ops"],
    "bounds": {"operations": "slice, like, to_linear/to_circular/to_stokes/to_intensity, Stokes component access, ufuncs without out=, concatenate, "
               "snippet (ok and raising), time_shift (scalar/array/Quantity shift, crop), freq_shift (ok and raising), fast_len, coherent and "
               "incoherent dedispersion, stft, istft, real_to_complex, compute/persist on NumPy data",
               "inputs": "N = 4 (2 for the dual-pol ops), contiguous and non-contiguous (view of a larger buffer, swapped axes) writable buffers"},
    "assumptions": ["one call from an arbitrary input state; sequences of calls follow by induction (inputs unchanged after any one call)"],
    "outside": ["Dask helpers on Dask data, readers (no array inputs)", "N other than the listed sizes"],
}


def snapshot(S, obj, label, out):
    """flatten obj (signal / array / Quantity / scalar) into (label, kind, value) records"""
    if isinstance(obj, pb.Signal):
        d = obj.data
        base = d
        while getattr(base, "base", None) is not None and isinstance(base.base, np.ndarray):
            base = base.base
        snapshot(S, base, label + ".buffer", out)
        out.append((label + ".data.shape", "py", tuple(d.shape)))
        out.append((label + ".data.strides", "py", tuple(d.strides)))
        out.append((label + ".data.dtype", "py", str(d.dtype)))
        out.append((label + ".sample_rate", "term", qterm(obj.sample_rate, u.Hz)))
        out.append((label + ".sample_rate.unit", "py", str(obj.sample_rate.unit)))
        out.append((label + ".start_time", "term" if obj.start_time is not None else "py", time_term(obj.start_time)))
        for k in ("center_freq", "chan_bw"):
            if hasattr(obj, k):
                out.append((label + "." + k, "term", qterm(getattr(obj, k), u.Hz)))
                out.append((label + "." + k + ".unit", "py", str(getattr(obj, k).unit)))
        for k in ("freq_align", "pol_type"):
            if hasattr(obj, k):
                out.append((label + "." + k, "py", getattr(obj, k)))
        out.append((label + ".meta", "py", copy.deepcopy(obj.meta)))
        out.append((label + ".type", "py", type(obj).__name__))
    elif isinstance(obj, Time):
        # a caller's Time object: representation attributes included (setting .format / .precision on it is a mutation)
        out.append((label + ".time", "py", (obj.format, obj.precision, obj.scale, repr(np.asarray(obj.jd1).tolist()), repr(np.asarray(obj.jd2).tolist()),
                                            str(obj.value))))
    elif isinstance(obj, u.Quantity):
        out.append((label + ".unit", "py", str(obj.unit)))
        snapshot(S, obj.value if obj.dtype != object else np.asarray(plain(obj.value), dtype=object), label + ".value", out)
    elif isinstance(obj, np.ndarray):
        a = plain(obj)
        out.append((label + ".shape", "py", tuple(a.shape)))
        for ix in np.ndindex(*a.shape):
            e = a[ix]
            if isinstance(e, (SComplex, complex, np.complexfloating)):
                re, im = cterm(e)
                out.append((f"{label}{list(ix)}.re", "term", re))
                out.append((f"{label}{list(ix)}.im", "term", im))
            elif isinstance(e, (SBool,)):
                out.append((f"{label}{list(ix)}", "bool", e.e))
            else:
                out.append((f"{label}{list(ix)}", "term", term_of_number(e)))
    elif isinstance(obj, (SNum, int, float, np.number)):
        out.append((label, "term", term_of_number(obj)))
    elif isinstance(obj, (list, tuple)):
        for i, x in enumerate(obj):
            snapshot(S, x, f"{label}[{i}]", out)
    elif obj is None or isinstance(obj, (str, bool)):
        out.append((label, "py", obj))
    else:
        out.append((label, "py", repr(type(obj))))
    return out


def diff(S, before, after):
    bad = []
    if [b[0] for b in before] != [a[0] for a in after]:
        return [("structure", z3.BoolVal(True))]
    groups = {}
    for (lab, kind, v0), (_, _, v1) in zip(before, after):
        g = lab.split("[")[0]
        if kind == "py":
            b = z3.BoolVal(v0 != v1)
        elif kind == "bool":
            b = v0 != v1
        else:
            b = z3.BoolVal(False) if (v0 is v1) else (v0 != v1)
        groups.setdefault(g, []).append(b)
    return [(g, z3.Or(bs)) for g, bs in groups.items()]


def base_signal(S, kind, N=4, view=None, name="z"):
    """signal on a writable buffer; view: None (contiguous), 'strided' (every second row of a larger buffer), 'swapped'"""
    if kind == "signal":
        shape, cplx = (N, 2), True
    elif kind == "real":
        shape, cplx = (N, 2), False
    elif kind == "baseband":
        shape, cplx = (N, 2), True
    elif kind == "dual":
        shape, cplx = (N, 1, 2), True
    elif kind == "stokes":
        shape, cplx = (N, 1, 4), False
    mk = S.carray if cplx else S.rarray
    if view == "strided":
        buf = mk(name, (2 * shape[0],) + shape[1:])
        data = buf[::2]
    elif view == "swapped":
        buf = mk(name, (shape[1], shape[0]) + shape[2:])
        data = buf.swapaxes(0, 1)
    else:
        data = mk(name, shape)
    sr = S.real(name + "_sr")
    S.assume(sr > Fraction(1, 100))
    S.assume(sr < 10**6)
    t0 = S.real(name + "_t0")
    S.assume(t0 > -10**6)
    S.assume(t0 < 10**6)
    S.time_eps(RV(Fraction(1, 10**12)))          # Time.isclose tolerance (well below the sample spacing >= 1e-9 s)
    kw = dict(sample_rate=S.quantity(sr, u.kHz), start_time=S.time(t0), meta={"obs": ["a", 1]})
    if kind in ("signal", "real"):
        return pb.Signal(data, **kw)
    cf = S.real(name + "_cf")
    S.assume(cf > 10)
    S.assume(cf < 10**5)
    kw.update(center_freq=S.quantity(cf, u.MHz), freq_align="bottom")
    if kind == "baseband":
        return pb.BasebandSignal(data, **kw)
    if kind == "dual":
        return pb.DualPolarizationSignal(data, pol_type="linear", **kw)
    return pb.FullStokesSignal(data, chan_bw=S.quantity(sr, u.kHz), **kw)


def _dm(S, delays):
    dm = S.real("dm")
    S.assume(dm > -100)
    S.assume(dm < 100)
    DM = StubDM(np.array(dm, dtype=object), dtype=object) if S.symbolic else StubDM(dm)
    DM._stub_delays = delays
    DM._stub_calls = []
    return DM


class _IncohDM:
    def __init__(self, d):
        self.d = d

    def sample_delay(self, f, ref, sr):
        return self.d


def _small_int(S, name, lo, hi):
    return S.int(name, lo, hi)


OPS = {}


def op(name, kind, view=None, N=4):
    def deco(fn):
        OPS[name] = (kind, view, N, fn)
        return fn
    return deco


@op("slice", "signal", "strided")
def _(S, z):
    a, b = S.int("a", -6, 6), S.int("b", -6, 6)
    return [a, b], lambda: z[a:b:2]


@op("slice-freq", "baseband", "swapped")
def _(S, z):
    return [], lambda: z[1:, 0:1]


@op("like", "baseband")
def _(S, z):
    return [], lambda: pb.BasebandSignal.like(z, sample_rate=z.sample_rate * 2, meta={"x": 1})


@op("to_circular", "dual", None, 2)
def _(S, z):
    return [], lambda: z.to_circular().to_linear()


@op("to_stokes", "dual", "strided", 2)
def _(S, z):
    return [], lambda: (z.to_stokes(), z.to_intensity())


@op("stokes-component", "stokes", "swapped", 2)
def _(S, z):
    return [], lambda: (z["Q"], z.stokesV)


@op("ufunc", "signal", "strided")
def _(S, z):
    w = S.real("w")
    return [w], lambda: (z * w + 1, np.negative(z), np.conjugate(z), z - z)


@op("ufunc-two-signals", "real", None)
def _(S, z):
    y = base_signal(S, "real", 4, "strided", name="y")
    return [y], lambda: (np.add(z, y), np.multiply(y, z), z < y)


@op("concatenate", "baseband", "strided", 2)
def _(S, z):
    return [], lambda: pb.concatenate([z[:1], z[1:]])


@op("concatenate-raises", "signal", None, 2)
def _(S, z):
    y = pb.Signal.like(z, sample_rate=z.sample_rate * 3)
    return [y], lambda: pb.concatenate([z, y])


@op("snippet-whole", "signal", "strided")
def _(S, z):
    t, n = S.int("t", -1, 5), S.int("n", -1, 5)
    return [t, n], lambda: pb.snippet(z, t, n)


@op("snippet-duration", "signal", None, 4)
def _(S, z):
    # t given as a time Quantity (an argument object the call must leave alone): 1 <= t*sample_rate <= 2 samples, whole or not
    k = S.int("tk", 2, 4)
    tq = S.quantity(k / (2 * z.sample_rate.value), u.ms) if S.symbolic else (float(k) / (2 * z.sample_rate.value)) * u.ms
    return [tq], lambda: pb.snippet(z, tq, 1)


@op("concatenate-metas", "signal", None, 2)
def _(S, z):
    # pieces with different, non-empty meta dictionaries (the first one passed as the caller's own object)
    y = pb.Signal.like(z, start_time=z.stop_time, meta={"other": [2]})
    return [y], lambda: pb.concatenate([z, y])


@op("concatenate-metas-raises", "signal", None, 2)
def _(S, z):
    y = pb.Signal.like(z, start_time=z.stop_time, sample_rate=z.sample_rate * 2, meta={"other": [2]})
    return [y], lambda: pb.concatenate([z, y])


@op("time-argument", "signal", None, 2)
def _(S, z):
    # Time objects handed in by the caller (not in the library's own isot/9 representation), on accepting and refusing paths
    t1 = Time(59000.25, format="mjd", precision=3)
    t2 = Time([59000.25, 59000.5], format="mjd")

    def run():
        a = pb.Signal.like(z, start_time=t1)
        b = pb.Signal(z.data, sample_rate=z.sample_rate, start_time=t1)
        try:
            pb.Signal.like(z, start_time=t2)
        except ValueError:
            pass
        return (a, b)
    return [t1, t2], run


@op("snippet-frac", "signal", None, 2)
def _(S, z):
    t = S.real("t")
    S.assume(t > 0)
    S.assume(t < 1)
    S.assume(z3.Or(rterm(t) > Fraction(1, 1000)))
    return [t], lambda: pb.snippet(z, t, 1)


@op("snippet-tiny-frac", "signal", None, 2)
def _(S, z):
    # a fractional offset so small that time_shift treats it as "no shift" (its numpy.allclose early return hands back the input object)
    t = S.real("t")
    S.assume(t > 0)
    S.assume(t < Fraction(1, 10**8))
    return [t], lambda: pb.snippet(z, t, 1)


@op("time_shift-float-array", "signal", "swapped", 2)
def _(S, z):
    # a float64 shift array, entries possibly beyond the signal length
    vals = []
    for k in range(2):
        v = S.real(f"sf{k}")
        S.assume(v > -5)
        S.assume(v < 5)
        vals.append(v)
    arr = SymND(np.array(vals, dtype=object), np.float64) if S.symbolic else np.array(vals, dtype=np.float64)
    return [arr], lambda: pb.time_shift(z, arr)


@op("time_shift-scalar", "signal", "strided", 2)
def _(S, z):
    s = S.int("s", -3, 3)
    return [s], lambda: pb.time_shift(z, s, crop=True)


@op("time_shift-array", "real", "swapped", 2)
def _(S, z):
    sh = S.iarray("s", (2,), -2, 2)
    arr = SymND(sh, np.int64) if S.symbolic else np.asarray(sh, dtype=np.int64)
    return [arr], lambda: pb.time_shift(z, arr)


@op("freq_shift", "baseband", "strided", 2)
def _(S, z):
    m = S.int("m", -3, 3)
    q = z.sample_rate * Fraction(1, 2) * m if S.symbolic else z.sample_rate * 0.5 * m
    return [q], lambda: pb.freq_shift(z, q)


@op("freq_shift-raises", "baseband", None, 2)
def _(S, z):
    q = 3 * u.s
    return [q], lambda: pb.freq_shift(z, q)


@op("freq_shift-array-Hz", "baseband", None, 2)
def _(S, z):
    # a per-channel shift array already in Hz (to_value(u.Hz) then hands out the caller's own buffer, not a copy)
    ms = [S.int(f"m{k}", -2, 2) for k in range(2)]
    half = Fraction(1, 2)
    if S.symbolic:
        vals = np.array([SReal(z3.ToReal(m.e)) * half * 1000 * SReal(rterm(z.sample_rate.value[()] if hasattr(z.sample_rate.value, "shape") else z.sample_rate.value)) for m in ms], dtype=object)
        q = S.quantity(SymND(vals, np.float64), u.Hz)
    else:
        q = np.array([float(m) * 0.5 * z.sample_rate.to_value(u.Hz) for m in ms]) * u.Hz
    return [q], lambda: pb.freq_shift(z, q)


@op("dm-delays-and-chirp", "baseband", None, 2)
def _(S, z):
    # the REAL DispersionMeasure methods (not the stub used by the dedispersion operations below) with frequency arguments in units
    # other than MHz: neither the argument Quantities nor the signal's own center_freq (passed by reference) may be rescaled
    dm = S.real("dm")
    S.assume(dm > -100)
    S.assume(dm < 100)
    f, g = S.real("fa"), S.real("fb")
    for x in (f, g):
        S.assume(x > Fraction(1, 10))
        S.assume(x < 10)
    DM = pb.DM(np.array(dm, dtype=object), dtype=object) if S.symbolic else pb.DM(dm)
    fq, gq = S.quantity(f, u.GHz), S.quantity(g * 10**9, u.Hz)
    sr = 1 * u.kHz

    def run():
        return (DM.time_delay(fq, gq), DM.sample_delay(gq, fq, sr), DM.time_delay(z.center_freq, gq), DM.sample_delay(fq, z.center_freq, sr))
    return [fq, gq, DM], run


@op("fast_len", "signal", "strided", 4)
def _(S, z):
    return [], lambda: pb.fast_len(z)


@op("coherent_dedispersion", "baseband", "strided", 2)
def _(S, z):
    dt, db = S.real("dtop"), S.real("dbot")
    for d in (dt, db):
        S.assume(d > -3)
        S.assume(d < 3)
    DM = _dm(S, [dt, db])
    return [DM], lambda: pb.coherent_dedispersion(z, DM)


@op("coherent_dedispersion-chirp", "baseband", "swapped", 2)
def _(S, z):
    ch = S.carray("ch", (2, 2))
    DM = _dm(S, [0.25, -0.25])
    return [ch], lambda: pb.coherent_dedispersion(z, DM, chirp=ch)


@op("incoherent_dedispersion", "baseband", "strided", 4)
def _(S, z):
    d = S.iarray("d", (2,), -2, 2)
    S.assume(True)
    arr = SymND(np.array([SReal(x.e) for x in d], dtype=object), np.float64) if S.symbolic else np.asarray(d, dtype=np.float64)
    DM = _IncohDM(arr)
    return [arr], lambda: pb.incoherent_dedispersion(z, DM)


@op("stft", "baseband", "strided", 4)
def _(S, z):
    return [], lambda: pb.contrib.stft(z, nperseg=2)


@op("istft", "baseband", None, 2)
def _(S, z):
    return [], lambda: pb.contrib.istft(z, nperseg=2)


@op("istft-strided", "baseband", "strided", 2)
def _(S, z):
    return [], lambda: pb.contrib.istft(z, nperseg=2)


@op("real_to_complex", "real", "strided", 4)
def _(S, z):
    return [], lambda: (pb.utils.real_to_complex(z.data, axis=0), pb.utils.real_to_complex(z.data, axis=1))


@op("compute-persist", "signal", "swapped", 2)
def _(S, z):
    return [], lambda: (z.compute(), z.persist())


@op("array-conversion", "signal", "strided", 2)
def _(S, z):
    return [], lambda: (np.asarray(z), np.array(z))


class NoMutate(Unit):
    functions = ("pulsarbat.core:Signal.__getitem__", "pulsarbat.core:Signal.like", "pulsarbat.core:Signal.__array_ufunc__",
                 "pulsarbat.core:DualPolarizationSignal.to_circular", "pulsarbat.core:DualPolarizationSignal.to_linear",
                 "pulsarbat.core:DualPolarizationSignal.to_stokes", "pulsarbat.transforms.transforms:concatenate",
                 "pulsarbat.transforms.transforms:snippet", "pulsarbat.transforms.transforms:time_shift",
                 "pulsarbat.transforms.transforms:freq_shift", "pulsarbat.transforms.transforms:fast_len",
                 "pulsarbat.transforms.dedispersion:coherent_dedispersion", "pulsarbat.transforms.dedispersion:incoherent_dedispersion",
                 "pulsarbat.contrib.misc:stft", "pulsarbat.contrib.misc:istft", "pulsarbat.utils:real_to_complex",
                 "pulsarbat.core:Signal.compute", "pulsarbat.core:Signal.persist")
    witnesses = 1
    max_violations = 1

    def compare(self, S, args, out, CS, cargs, cout):
        """the same before/after comparison on the concrete run of the unpatched code (real Time, real arrays): a mutation that the
        stand-ins of the symbolic run step over (e.g. one guarded by isinstance(x, Time)) still shows here"""
        from pbsym.runner import _truth
        if isinstance(cout, Raised):
            return []
        failed = []
        for lab, bad in diff(CS, cout["before"], cout["after"]):
            try:
                if _truth(bad, CS):
                    failed.append(lab)
            except (KeyError, ZeroDivisionError):
                pass
        return [f"the concrete run changes its inputs: {failed[:3]}"] if failed else []

    def patches(self):
        import pulsarbat.transforms.dedispersion as D
        from .C05 import RecExp
        # (the chirp values are irrelevant here: exp() in the dedispersion module returns fresh unit-modulus symbols, as in C05)
        return standard_patches(concretize_int=True) + [(D, "np", RecExp())]

    def __init__(self, opname):
        self.opname = opname
        self.name = f"nomutate-{opname}"
        kind, view, N, _ = OPS[opname]
        self.bounds = {"operation": opname, "signal": kind, "buffer": view or "contiguous", "N": N}

    def build(self, S):
        kind, view, N, fn = OPS[self.opname]
        z = base_signal(S, kind, N, view)
        extra, thunk = fn(S, z)
        return {"z": z, "extra": extra, "thunk": thunk, "S": S}

    def call(self, a):
        S = a["S"]
        before = snapshot(S, a["z"], "input", [])
        snapshot(S, [x for x in a["extra"] if not isinstance(x, (StubDM, _IncohDM))], "args", before)
        try:
            res = a["thunk"]()
            outcome = "returned"
        except Exception as e:
            outcome = f"raised {type(e).__name__}"
        after = snapshot(S, a["z"], "input", [])
        snapshot(S, [x for x in a["extra"] if not isinstance(x, (StubDM, _IncohDM))], "args", after)
        return {"before": before, "after": after, "outcome": outcome}

    def spec(self, S, a, out):
        if isinstance(out, Raised):
            return [("harness", z3.BoolVal(True))]
        return diff(S, out["before"], out["after"])

    def signature(self, label, values, detail):
        return f"mutates-input:{self.opname}:{label}"


def units(tier):
    return [NoMutate(n) for n in OPS]
